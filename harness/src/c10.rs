//! C10 — failed storage operations change nothing.
use crate::c04::observe;
use crate::c05::dom_f;
use crate::interp::World;
use crate::mgmt::*;
use crate::proto::*;

/// everything the property talks about: policy, grouping policy, role queries, decisions
fn full_state(rec: &mut Recorder, w: &mut World, m: &ModelDef, u: &Universe) -> String {
    let refs = RefStore::of_model(m);
    let o = observe(rec, w, u, &refs, false);
    let mut s = format!("{} / {}", o.pol, o.dec);
    for n in ["alice", "bob", "admin"] {
        s.push('|'); s.push_str(&rec.exec(w, &format!("e.roles\t{}\t{}", n, dom_f(&None))));
        s.push('|'); s.push_str(&rec.exec(w, &format!("e.users\t{}\t{}", n, dom_f(&None))));
        s.push('|'); s.push_str(&rec.exec(w, &format!("e.iroles\t{}\t{}", n, dom_f(&None))));
    }
    s
}

pub fn run(rec: &mut Recorder, w: &mut World, tier: &str, seed: u64) {
    let mut rng = Rng::new(seed);
    let m = priority_rbac();
    let u = small_universe();
    let alpha = alphabet(&u);
    // ---- (1) a management call the adapter rejects (Err / Ok(false)) is a no-op ----
    // exhaustive: every op of the alphabet as the failing call, after every op of the alphabet as set-up, both fault kinds
    let n_hist = (if tier == "thorough" { 1200 } else { 120 }) * rec.budget as usize;
    let mut cases: Vec<(Vec<MOp>, MOp, &'static str)> = vec![];
    for f in ["err", "refuse"] { for a in &alpha { for c in &alpha { cases.push((vec![a.clone()], c.clone(), f)); } } }
    let n_ex = cases.len();
    for _ in 0..n_hist {
        let len = rng.below(if tier == "thorough" { 60 } else { 25 });
        cases.push(((0..len).map(|_| random_op(&mut rng, &u)).collect(), random_op(&mut rng, &u), *rng.pick(&["err", "refuse"])));
    }
    for (ci, (setup, failing, fault)) in cases.iter().enumerate() {
        rec.begin();
        new_enforcer(rec, w, &m, "memory", &[], "", false);
        for op in setup { rec.exec(w, &op.line()); }
        let before = full_state(rec, w, &m, &u);
        rec.exec(w, &format!("e.fault\t{}", fault_plan(failing, fault)));
        let out = rec.exec(w, &failing.line());
        rec.exec(w, "e.fault\t-");
        let after = full_state(rec, w, &m, &u);
        let stored = rec.exec(w, "e.reload");
        let descr = format!("{} ; [adapter {}] {}", setup.iter().map(|o| o.line().replace('\t', " ")).collect::<Vec<_>>().join(" ; "), fault, failing.line().replace('\t', " "));
        // an empty filter never reaches the adapter's removal? it does (auto-save): still a no-op
        let want = if *fault == "err" { "err:adapter" } else { "false" };
        if out != want && !(matches!(failing, MOp::Clear) && *fault == "refuse") {
            rec.fail("rejection-not-reported", format!("{} returned {} (expected {})", descr, out, want));
        }
        if before != after {
            rec.fail("rejected-call-changed-state", format!("{}: state {} -> {}", descr, before, after));
        }
        let _ = stored;
        rec.count(&format!("rejected:{}:{}", fault, failing.kind()));
        rec.nontrivial_case(&format!("1|{}", descr));
        if ci == n_ex { rec.sample(descr.clone()); }
    }
    rec.count_n("cases:exhaustive", n_ex as u64);
    rec.exhaustive = true;
    // ---- (2) a failing load keeps the previously loaded policy ----
    let n_load = (if tier == "thorough" { 800 } else { 100 }) * rec.budget as usize;
    for li in 0..n_load {
        rec.begin();
        new_enforcer(rec, w, &m, "memory", &[], "", false);
        let len = 1 + rng.below(12);
        for _ in 0..len { rec.exec(w, &random_op(&mut rng, &u).line()); }
        let before = full_state(rec, w, &m, &u);
        let nrules = before.matches("p,p").count() + before.matches("g,g").count();
        // failure before, between and after rules
        let k = rng.below(nrules + 2);
        let fault = if rng.chance(1, 4) { "err".to_string() } else { format!("fail{}", k) };
        // (a store that already holds an unlinkable grouping rule is not used as the *previous* state: its links depend on
        //  the history that produced it, so "unchanged" has no stable meaning there)
        let how = rng.below(6);
        let (out, what) = match how {
            4 => { // the adapter delivers everything, but a delivered grouping rule cannot be linked: the load fails in the
                   // role-link rebuild, after the store was replaced
                let other = vec![sv(&["p", "p", "zed", "d1", "read", "allow"]), sv(&["g", "g", "bob", "admin"]), sv(&["g", "g", "zed", "admin"]), sv(&["g", "g", "carol"])];
                rec.exec(w, "e.fault\t-");
                let out = rec.exec(w, &format!("e.setadapter\tmemory\t{}\t", enc_lists(&other)));
                let after = full_state(rec, w, &m, &u);
                if !out.starts_with("err") { rec.fail("load-fault-not-reported", format!("set_adapter over a store with an unlinkable grouping rule returned {}", out)); }
                if before != after { rec.fail("failed-load-changed-state", format!("set_adapter failing in the role-link rebuild: {} became {}", before, after)); }
                rec.count("load-fault:unlinkable-rule-in-new-store");
                rec.nontrivial_case(&format!("2|unlinkable|{}", before));
                continue;
            }
            5 => { // links are built by hand and lag behind the rules (a grouping rule added or removed since the last rebuild):
                   // the failing load must leave that lag as it is - no link built, none dropped
                rec.exec(w, "e.auto\tbuild\tfalse");
                let g = if rng.chance(1, 2) { MOp::Add("g".into(), "g".into(), sv(&[*rng.pick(&["alice", "bob"]), *rng.pick(&["admin", "staff"])])) } else { MOp::Rm("g".into(), "g".into(), sv(&[*rng.pick(&["alice", "bob"]), *rng.pick(&["admin", "staff"])])) };
                rec.exec(w, &g.line());
                let b2 = full_state(rec, w, &m, &u);
                rec.exec(w, &format!("e.fault\t{}", fault));
                let out = if rng.chance(1, 2) { rec.exec(w, "e.load") } else { rec.exec(w, &format!("e.loadf\t{}\t{}", enc_list(&sv(&["alice"])), enc_list(&sv(&[""])))) };
                rec.exec(w, "e.fault\t-");
                let a2 = full_state(rec, w, &m, &u);
                if !out.starts_with("err") { rec.fail("load-fault-not-reported", format!("load under adapter fault {} with link building off returned {}", fault, out)); }
                if b2 != a2 { rec.fail("failed-load-changed-state", format!("load failing with {} while links are built by hand (after {}): {} became {}", fault, g.line().replace('\t', " "), b2, a2)); }
                rec.count("load-fault:links-built-by-hand");
                rec.nontrivial_case(&format!("2|manual|{}|{}", fault, b2));
                continue;
            }
            0 => { rec.exec(w, &format!("e.fault\t{}", fault)); (rec.exec(w, "e.load"), "load_policy") }
            1 => { rec.exec(w, &format!("e.fault\t{}", fault)); (rec.exec(w, &format!("e.loadf\t{}\t{}", enc_list(&sv(&["alice"])), enc_list(&sv(&[""])))), "load_filtered_policy") }
            2 => { // set_adapter with a failing adapter holding other content
                let other = vec![sv(&["p", "p", "zed", "d1", "read", "allow"]), sv(&["g", "g", "zed", "admin"])];
                (rec.exec(w, &format!("e.setadapter\tmemory\t{}\t\t{}", enc_lists(&other), fault)), "set_adapter") }
            _ => { // the file disappears under a FileAdapter: a real I/O failure
                rec.exec(w, "e.setadapter\tfile\t-\tp, zed, d1, read, allow%0A\t-");
                let b2 = full_state(rec, w, &m, &u);
                let o = rec.exec(w, "fs.unlink");
                let _ = o;
                let out = rec.exec(w, "e.loadc"); // error class only: the kind (io vs adapter) depends on the adapter
                let a2 = full_state(rec, w, &m, &u);
                if !out.starts_with("err") || b2 != a2 { rec.fail("failed-load-changed-state", format!("load_policy with the policy file removed -> {}: {} became {}", out, b2, a2)); }
                rec.count("load-fault:file-removed");
                continue;
            }
        };
        rec.exec(w, "e.fault\t-");
        let after = full_state(rec, w, &m, &u);
        if !out.starts_with("err") { rec.fail("load-fault-not-reported", format!("{} under adapter fault {} returned {}", what, fault, out)); }
        if before != after { rec.fail("failed-load-changed-state", format!("{} failing with {}: {} became {}", what, fault, before, after)); }
        rec.count(&format!("load-fault:{}", what));
        rec.nontrivial_case(&format!("2|{}|{}|{}", what, fault, before));
        if li == 0 { rec.sample(format!("{} with fault {} after state {}", what, fault, before)); }
    }
    // ---- (4) a save_policy that fails leaves the store holding the old policy: (a) the adapter reports an error;
    //      (b) the file / string adapter refuses the model (no policy definition: a membership-only model) ----
    {
        let nop = ModelDef {
            r: vec![("r".into(), sv(&["sub", "role"]))], p: vec![], g: vec![("g".into(), 2)],
            e: vec![("e".into(), E_ALLOW.into())],
            m: vec![("m".into(), "(g2 g (r 0) (r 1))".into(), "g(r.sub, r.role)".into())], tbl: vec![],
        };
        let stored = vec![sv(&["g", "g", "alice", "admin"]), sv(&["g", "g", "bob", "auditor"]), sv(&["g", "g", "admin", "staff"])];
        let text = "g, alice, admin\ng, bob, auditor\ng, admin, staff\n";
        let n4 = (if tier == "thorough" { 60 } else { 12 }) * rec.budget as usize;
        for it in 0..n4 {
            for kind in ["string", "file", "memory"] {
                for refused_model in [true, false] {
                    rec.begin();
                    let mm = if refused_model { nop.clone() } else { m.clone() };
                    if new_enforcer(rec, w, &mm, kind, &stored, text, false) != "ok" { rec.count("new:failed"); continue; }
                    let first = rec.exec(w, "e.pol");
                    // edits that stay in memory (auto-save off; an empty history on the first round)
                    rec.exec(w, "e.auto\tsave\tfalse");
                    let mut edits = vec![];
                    if it > 0 {
                        for _ in 0..1 + rng.below(4) {
                            let a = *rng.pick(&["alice", "bob", "carol", "admin"]); let b = *rng.pick(&["admin", "staff", "auditor"]);
                            let op = if rng.chance(1, 2) { format!("e.add\tg\tg\t{}", enc_list(&sv(&[a, b]))) } else { format!("e.rm\tg\tg\t{}", enc_list(&sv(&[a, b]))) };
                            rec.exec(w, &op); edits.push(op.replace('\t', " "));
                        }
                        if it % 5 == 4 { rec.exec(w, "e.clear"); edits.push("e.clear".into()); }
                    }
                    let in_memory = rec.exec(w, "e.pol");
                    // the adapter's failure comes at its first, second or third call from now on (a save that is one call reaches
                    // the first only; one split into several storage steps would fail in the middle)
                    let plan = ["err", "pass,err", "pass,pass,err"][it % 3];
                    let must_fail = if refused_model { kind != "memory" } else { rec.exec(w, &format!("e.fault\t{}", plan)); plan == "err" };
                    let out = rec.exec(w, "e.save");
                    rec.exec(w, "e.fault\t-");
                    let after_mem = rec.exec(w, "e.pol");
                    let lo = rec.exec(w, "e.load");
                    let reloaded = rec.exec(w, "e.pol");
                    let descr = format!("{} adapter, {}, edits [{}]", kind, if refused_model { "model without a policy definition" } else { "adapter reports an error" }, edits.join(" ; "));
                    if must_fail {
                        if !out.starts_with("err") { rec.fail("save-fault-not-reported", format!("{}: save_policy returned {}", descr, out)); }
                        if after_mem != in_memory { rec.fail("failed-save-changed-state", format!("{}: in memory {} became {}", descr, in_memory, after_mem)); }
                        if lo != "ok" || reloaded != first { rec.fail("failed-save-damaged-store", format!("{}: the store held {} and after the failed save a load ({}) gives {}", descr, first, lo, reloaded)); }
                        rec.count(&format!("save-fault:{}:{}", kind, if refused_model { "model-refused" } else { "adapter-error" }));
                    } else if out.starts_with("err") {
                        // a failure later in the save: the store must still hold one complete policy, the old or the new
                        if lo != "ok" || (reloaded != first && reloaded != in_memory) { rec.fail("failed-save-damaged-store", format!("{} [failure at a later adapter call: {}]: the store held {} , memory holds {} , and after the failed save a load ({}) gives {}", descr, plan, first, in_memory, lo, reloaded)); }
                        rec.count(&format!("save-fault-late:{}", kind));
                    } else {
                        if out != "ok" || lo != "ok" || reloaded != in_memory { rec.fail("save-load-differs", format!("{}: saved {} ({}), loaded ({}) {}", descr, in_memory, out, lo, reloaded)); }
                        rec.count(&format!("save-ok:{}", kind));
                    }
                    rec.nontrivial_case(&format!("4|{}", descr));
                    if it == 1 && kind == "string" { rec.sample(descr.clone()); }
                }
            }
        }
    }
    // ---- (3) file save interrupted after every byte count (RLIMIT_FSIZE in a child process) ----
    let olds: Vec<Vec<Vec<String>>> = vec![vec![sv(&["alice", "data1", "read"]), sv(&["bob", "data2", "write"])], vec![], vec![sv(&["é", "a,b", "x"])]];
    let news: Vec<Vec<Vec<String>>> = vec![vec![sv(&["carol", "data3", "read"]), sv(&["dave", "d,4", "write"]), sv(&["erin", "data5", "exec"])], vec![sv(&["z", "z", "z"])]];
    for old in &olds { for new in &news {
        let len: usize = new.iter().map(|r| { let f: Vec<String> = r.iter().map(|x| if x.contains(',') { format!("\"{}\"", x) } else { x.clone() }).collect(); format!("p, {}\n", f.join(",")).len() }).sum();
        let ks: Vec<usize> = if tier == "thorough" { (0..=len + 1).collect() } else { (0..=len + 1).step_by(3).chain([len - 1, len, 1]).collect() };
        for k in ks {
            rec.begin();
            let out = rec.exec(w, &format!("fs.crash\t{}\t{}\t{}", enc_lists(old), enc_lists(new), k));
            if out != "old" && out != "new" { rec.fail("save-not-atomic", format!("save_policy interrupted after {} of {} bytes left neither the old nor the new policy: {}", k, len, out)); }
            rec.count(&format!("crash-point:{}", out.split(':').next().unwrap_or("?")));
            rec.nontrivial_case(&format!("3|{:?}|{:?}|{}", old, new, k));
        }
    } }
}
