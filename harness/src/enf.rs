//! Enforcer part of the interpreter: model assembly, adapters (with fault injection),
//! a recording watcher, and every `e.*` op executed on the real crate.
use crate::interp::{dom_opt, err_kind};
use crate::proto::*;
use async_trait::async_trait;
use casbin::prelude::*;
use casbin::rhai::{Dynamic, ImmutableString, Map};
use casbin::function_map::OperatorFunction;
use casbin::{Adapter, DefaultRoleManager, EnforceContext, EventData, Filter, InternalApi, Model, Watcher};
use parking_lot::{Mutex, RwLock};
use std::collections::VecDeque;
use std::sync::atomic::{AtomicBool, AtomicU64, Ordering};
use std::sync::Arc;

// ---------- model assembly ----------

#[derive(Default, Clone)]
pub struct Spec {
    pub r: Vec<(String, Vec<String>)>,
    pub p: Vec<(String, Vec<String>)>,
    pub g: Vec<(String, usize)>,
    pub e: Vec<(String, String)>,
    pub m: Vec<(String, String)>,
}

impl Spec {
    /// the model text; every fourth specification is written with a trailing comment on each definition line (the comment
    /// itself mentions an issue number, so it holds a second '#')
    pub fn conf(&self) -> String {
        let plain = self.conf_plain();
        if variant(&[&plain]) % 4 != 1 { return plain; }
        let mut out = String::new();
        for (i, line) in plain.lines().enumerate() {
            out.push_str(line);
            if line.contains(" = ") { out.push_str(["  # see #7", " # allow | deny (issue #12)", "\t# note #1 # note #2"][i % 3]); }
            out.push('\n');
        }
        out
    }

    fn conf_plain(&self) -> String {
        let mut s = String::from("[request_definition]\n");
        for (k, t) in &self.r { s.push_str(&format!("{} = {}\n", k, t.join(", "))); }
        s.push_str("[policy_definition]\n");
        for (k, t) in &self.p { s.push_str(&format!("{} = {}\n", k, t.join(", "))); }
        if !self.g.is_empty() {
            s.push_str("[role_definition]\n");
            for (k, n) in &self.g { s.push_str(&format!("{} = {}\n", k, vec!["_"; *n].join(", "))); }
        }
        s.push_str("[policy_effect]\n");
        for (k, t) in &self.e { s.push_str(&format!("{} = {}\n", k, t)); }
        s.push_str("[matchers]\n");
        for (k, t) in &self.m { s.push_str(&format!("{} = {}\n", k, t)); }
        s
    }
}

impl Spec {
    /// the definitions as (section, key, value text) in the order `DefaultModel::from_str` adds them, or None when the
    /// text form does something a definition-by-definition build would not (repeated or unusual keys, values the
    /// configuration reader would trim, continue or reject)
    fn plain_defs(&self) -> Option<Vec<(&'static str, String, String)>> {
        let mut secs: Vec<(&'static str, Vec<(String, String)>)> = vec![];
        secs.push(("r", self.r.iter().map(|(k, t)| (k.clone(), t.join(", "))).collect()));
        secs.push(("p", self.p.iter().map(|(k, t)| (k.clone(), t.join(", "))).collect()));
        secs.push(("e", self.e.clone()));
        secs.push(("m", self.m.clone()));
        secs.push(("g", self.g.iter().map(|(k, n)| (k.clone(), vec!["_"; *n].join(", "))).collect()));
        let mut out = vec![];
        for (sec, defs) in secs {
            for (i, (k, v)) in defs.iter().enumerate() {
                if defs.iter().take(i).any(|(k2, _)| k2 == k) { return None; }
                if k.is_empty() || !k.bytes().all(|b| b.is_ascii_lowercase() || b.is_ascii_digit()) { return None; }
                if v.is_empty() || v.trim() != v || v.contains('\n') || v.contains('\r') || v.ends_with('\\') { return None; }
            }
            // load_section: key, key2, key3 ... up to the first one missing
            let mut i = 1;
            loop {
                let key = if i == 1 { sec.to_string() } else { format!("{}{}", sec, i) };
                match defs.iter().find(|(k, _)| *k == key) { Some((_, v)) => out.push((sec, key, v.clone())), None => break }
                i += 1;
            }
        }
        Some(out)
    }

    /// the model as `DefaultModel::from_str` reads it from the text, or - for every third plain specification - built
    /// definition by definition through `Model::add_def`, the value text handed over with trailing blanks or a line end
    /// (as read from a prompt, a YAML block or a database column; `add_def` trims the end of the value)
    pub async fn build(&self, conf: &str) -> casbin::Result<DefaultModel> {
        let v = variant(&[conf]);
        if v % 3 == 0 {
            if let Some(defs) = self.plain_defs() {
                let trail = [" ", "\n", " \t", "\r\n", ""][(v / 3) % 5];
                let mut m = DefaultModel::default();
                let mut stopped: Option<&str> = None;
                for (sec, key, val) in &defs {
                    if stopped == Some(*sec) { continue; }
                    if !m.add_def(sec, key, &format!("{}{}", val, trail)) { stopped = Some(*sec); }
                }
                return Ok(m);
            }
        }
        DefaultModel::from_str(conf).await
    }
}

// ---------- fault-injecting adapter wrapper ----------

#[derive(Clone, Debug, PartialEq)]
pub enum Fault { Pass, Err, Refuse, FailAfter(usize) }

pub struct Shared {
    pub plan: Mutex<VecDeque<Fault>>,
    pub bypass: AtomicBool,
}

pub struct FaultyAdapter {
    inner: Box<dyn Adapter>,
    shared: Arc<Shared>,
}

fn injected() -> casbin::Error {
    casbin::Error::AdapterError(casbin::error::AdapterError("injected fault".into()))
}

impl FaultyAdapter {
    fn next(&self) -> Fault {
        if self.shared.bypass.load(Ordering::SeqCst) { return Fault::Pass; }
        self.shared.plan.lock().pop_front().unwrap_or(Fault::Pass)
    }
}

/// keep only the first k rules (p-definitions first, then g-definitions, stored order)
fn truncate_model(m: &mut dyn Model, mut k: usize) {
    for sec in ["p", "g"] {
        if let Some(ast_map) = m.get_mut_model().get_mut(sec) {
            for (_key, ast) in ast_map.iter_mut() {
                let rules: Vec<Vec<String>> = ast.get_policy().iter().cloned().collect();
                let keep = k.min(rules.len());
                for r in &rules[keep..] { ast.get_mut_policy().remove(r); }
                k -= keep;
            }
        }
    }
}

#[async_trait]
impl Adapter for FaultyAdapter {
    async fn load_policy(&mut self, m: &mut dyn Model) -> casbin::Result<()> {
        match self.next() {
            Fault::Err | Fault::Refuse => Err(injected()),
            Fault::FailAfter(k) => { self.inner.load_policy(m).await?; truncate_model(m, k); Err(injected()) }
            Fault::Pass => self.inner.load_policy(m).await,
        }
    }
    async fn load_filtered_policy<'a>(&mut self, m: &mut dyn Model, f: Filter<'a>) -> casbin::Result<()> {
        match self.next() {
            Fault::Err | Fault::Refuse => Err(injected()),
            Fault::FailAfter(k) => { self.inner.load_filtered_policy(m, f).await?; truncate_model(m, k); Err(injected()) }
            Fault::Pass => self.inner.load_filtered_policy(m, f).await,
        }
    }
    async fn save_policy(&mut self, m: &mut dyn Model) -> casbin::Result<()> {
        match self.next() { Fault::Pass => self.inner.save_policy(m).await, _ => Err(injected()) }
    }
    async fn clear_policy(&mut self) -> casbin::Result<()> {
        match self.next() { Fault::Pass => self.inner.clear_policy().await, _ => Err(injected()) }
    }
    fn is_filtered(&self) -> bool { self.inner.is_filtered() }
    async fn add_policy(&mut self, sec: &str, ptype: &str, rule: Vec<String>) -> casbin::Result<bool> {
        match self.next() { Fault::Pass => self.inner.add_policy(sec, ptype, rule).await, Fault::Refuse => Ok(false), _ => Err(injected()) }
    }
    async fn add_policies(&mut self, sec: &str, ptype: &str, rules: Vec<Vec<String>>) -> casbin::Result<bool> {
        match self.next() { Fault::Pass => self.inner.add_policies(sec, ptype, rules).await, Fault::Refuse => Ok(false), _ => Err(injected()) }
    }
    async fn remove_policy(&mut self, sec: &str, ptype: &str, rule: Vec<String>) -> casbin::Result<bool> {
        match self.next() { Fault::Pass => self.inner.remove_policy(sec, ptype, rule).await, Fault::Refuse => Ok(false), _ => Err(injected()) }
    }
    async fn remove_policies(&mut self, sec: &str, ptype: &str, rules: Vec<Vec<String>>) -> casbin::Result<bool> {
        match self.next() { Fault::Pass => self.inner.remove_policies(sec, ptype, rules).await, Fault::Refuse => Ok(false), _ => Err(injected()) }
    }
    async fn remove_filtered_policy(&mut self, sec: &str, ptype: &str, field_index: usize, field_values: Vec<String>) -> casbin::Result<bool> {
        match self.next() { Fault::Pass => self.inner.remove_filtered_policy(sec, ptype, field_index, field_values).await, Fault::Refuse => Ok(false), _ => Err(injected()) }
    }
}

// ---------- recording watcher ----------

pub struct RecWatcher(pub Arc<Mutex<Vec<String>>>);

pub fn event_s(d: &EventData) -> String {
    match d {
        EventData::AddPolicy(s, p, r) => format!("add|{}|{}|{}", s, p, enc_list(r)),
        EventData::AddPolicies(s, p, rs) => format!("addm|{}|{}|{}", s, p, enc_lists(rs)),
        EventData::RemovePolicy(s, p, r) => format!("rm|{}|{}|{}", s, p, enc_list(r)),
        EventData::RemovePolicies(s, p, rs) => format!("rmm|{}|{}|{}", s, p, enc_lists(rs)),
        EventData::RemoveFilteredPolicy(s, p, rs) => format!("rmf|{}|{}|{}", s, p, enc_lists(rs)),
        EventData::SavePolicy(rs) => format!("save|{}", enc_lists(rs)),
        EventData::ClearPolicy => "clear".to_string(),
        EventData::ClearCache => "clearcache".to_string(),
    }
}

impl Watcher for RecWatcher {
    fn set_update_callback(&mut self, _cb: Box<dyn FnMut() + Send + Sync>) {}
    fn update(&mut self, d: EventData) { self.0.lock().push(event_s(&d)); }
}

// ---------- the enforcer under test ----------

pub enum E { Plain(Enforcer), Cached(CachedEnforcer) }

macro_rules! with_e {
    ($e:expr, $x:ident => $body:expr) => {
        match $e { E::Plain($x) => $body, E::Cached($x) => $body }
    };
}

pub struct EnfWorld {
    pub spec: Spec,
    pub enf: Option<E>,
    pub conf: String,
    pub shared: Arc<Shared>,
    pub events: Arc<Mutex<Vec<String>>>,
    pub file_path: Option<String>,
    pub cached: bool,
    /// a role-manager handle kept by the caller (`e.keeprm`)
    pub kept_rm: Option<Arc<RwLock<dyn casbin::RoleManager>>>,
}

static FILE_CTR: AtomicU64 = AtomicU64::new(0);
/// policy files are given ordinary and unusual names: no extension, several dots, and the extension the adapter itself uses
/// for its temporary file
const FILE_EXTS: [&str; 5] = [".csv", ".tmp", "", ".v2.csv", ".csv.tmp"];

pub fn parse_val(s: &str) -> Dynamic {
    if let Some(b) = s.strip_prefix("s:") { Dynamic::from(unesc(b)) }
    else if let Some(b) = s.strip_prefix("i:") { Dynamic::from(unesc(b).parse::<i32>().unwrap_or(0)) }
    else if let Some(b) = s.strip_prefix("b:") { Dynamic::from(b == "true") }
    else if let Some(b) = s.strip_prefix("m:") {
        let mut m = Map::new();
        if !b.is_empty() {
            for kv in b.split('&') {
                let mut it = kv.splitn(2, '=');
                let k = unesc(it.next().unwrap_or(""));
                let v = it.next().unwrap_or("u:");
                m.insert(k.into(), parse_val(v));
            }
        }
        Dynamic::from(m)
    } else { Dynamic::UNIT }
}

/// an attribute value / attribute record handed to `enforce` the README's way: a serde-serialisable value inside a tuple
#[derive(serde::Serialize, Hash, Clone)]
#[serde(untagged)]
pub enum AV { S(String), I(i32), B(bool), U(()) }
pub type ARec = std::collections::BTreeMap<String, AV>;
fn parse_rec(s: &str) -> Option<ARec> {
    let b = s.strip_prefix("m:")?;
    let mut m = ARec::new();
    if !b.is_empty() {
        for kv in b.split('&') {
            let mut it = kv.splitn(2, '=');
            let k = unesc(it.next().unwrap_or(""));
            let v = it.next().unwrap_or("u:");
            let av = if let Some(x) = v.strip_prefix("s:") { AV::S(unesc(x)) } else if let Some(x) = v.strip_prefix("i:") { AV::I(unesc(x).parse::<i32>().unwrap_or(0)) }
                     else if let Some(x) = v.strip_prefix("b:") { AV::B(x == "true") } else { AV::U(()) };
            m.insert(k, av);
        }
    }
    Some(m)
}

/// a stable choice among the equivalent spellings of an API call: a function of the op's text only
fn variant(f: &[&str]) -> usize {
    let mut h: u64 = 0xcbf29ce484222325;
    for part in f { for b in part.bytes() { h ^= b as u64; h = h.wrapping_mul(0x100000001b3); } h ^= 0xff; h = h.wrapping_mul(0x100000001b3); }
    (h >> 7) as usize
}

fn res_b(r: casbin::Result<bool>) -> String {
    match r { Ok(b) => bool_s(b).to_string(), Err(e) => format!("err:{}", err_kind(&e)) }
}
fn res_u(r: casbin::Result<()>) -> String {
    match r { Ok(()) => "ok".to_string(), Err(e) => format!("err:{}", err_kind(&e)) }
}
fn out_c(r: Option<casbin::Result<bool>>) -> char {
    match r { None => 'p', Some(Ok(true)) => 't', Some(Ok(false)) => 'f', Some(Err(_)) => 'e' }
}

fn eq_fn(a: ImmutableString, b: ImmutableString) -> Dynamic { (a == b).into() }
fn ne_fn(a: ImmutableString, b: ImmutableString) -> Dynamic { (a != b).into() }
fn true_fn(_a: ImmutableString, _b: ImmutableString) -> Dynamic { true.into() }

impl EnfWorld {
    pub fn new() -> Self {
        EnfWorld {
            spec: Spec::default(), enf: None, conf: String::new(),
            shared: Arc::new(Shared { plan: Mutex::new(VecDeque::new()), bypass: AtomicBool::new(false) }),
            events: Arc::new(Mutex::new(vec![])), file_path: None, cached: false, kept_rm: None,
        }
    }

    fn mk_adapter(&mut self, rt: &tokio::runtime::Runtime, kind: &str, content: &str, text: &str) -> Box<dyn Adapter> {
        let inner: Box<dyn Adapter> = match kind {
            "memory" => {
                let mut a = MemoryAdapter::default();
                for line in dec_lists(content) {
                    if line.len() >= 2 {
                        let _ = rt.block_on(a.add_policy(&line[0], &line[1], line[2..].to_vec()));
                    }
                }
                Box::new(a)
            }
            "file" => {
                let dir = "/verif/target/tmp";
                std::fs::create_dir_all(dir).ok();
                let n = FILE_CTR.fetch_add(1, Ordering::SeqCst);
                let path = format!("{}/p{}-{}{}", dir, std::process::id(), n, FILE_EXTS[n as usize % FILE_EXTS.len()]);
                std::fs::write(&path, unesc(text)).unwrap();
                if let Some(old) = self.file_path.replace(path.clone()) { std::fs::remove_file(old).ok(); }
                Box::new(FileAdapter::new(path))
            }
            "string" => Box::new(StringAdapter::new(unesc(text))),
            _ => Box::new(NullAdapter),
        };
        self.shared.plan.lock().clear();
        Box::new(FaultyAdapter { inner, shared: self.shared.clone() })
    }

    pub fn exec(&mut self, rt: &tokio::runtime::Runtime, f: &[&str]) -> String {
        match f[0] {
            "m.reset" => { self.spec = Spec::default(); return "ok".into(); }
            "m.r" => { self.spec.r.push((f[1].to_string(), dec_list(f[2]))); return "ok".into(); }
            "m.p" => { self.spec.p.push((f[1].to_string(), dec_list(f[2]))); return "ok".into(); }
            "m.g" => { self.spec.g.push((f[1].to_string(), f[2].parse().unwrap())); return "ok".into(); }
            "m.e" => { self.spec.e.push((f[1].to_string(), unesc(f[2]))); return "ok".into(); }
            "m.m" => { self.spec.m.push((f[1].to_string(), unesc(f[3]))); return "ok".into(); }
            "m.tbl" => { return "ok".into(); }
            "e.cached" => { self.cached = f[1] == "true"; return "ok".into(); }
            "e.newpre" => {
                // the model handed to the constructor was filled beforehand through an adapter-level filtered load;
                // the adapter handed to it is a plain (unfiltered) one over the same store
                self.conf = self.spec.conf();
                let mut a1 = self.mk_adapter(rt, f[1], f[2], f[3]);
                self.events.lock().clear();
                self.kept_rm = None;
                let conf = self.conf.clone();
                let cached = self.cached;
                let (fp, fg) = (dec_list(f[4]), dec_list(f[5]));
                let pre = catch(|| rt.block_on(async {
                    let mut m = DefaultModel::from_str(&conf).await?;
                    let filt = Filter { p: fp.iter().map(|s| s.as_str()).collect(), g: fg.iter().map(|s| s.as_str()).collect() };
                    a1.load_filtered_policy(&mut m, filt).await?;
                    Ok::<DefaultModel, casbin::Error>(m)
                }));
                let m = match pre { None => return "panic".into(), Some(Err(e)) => { self.enf = None; return format!("err:{}", err_kind(&e)); } Some(Ok(m)) => m };
                let a2 = self.mk_adapter(rt, f[1], f[2], f[3]);
                let r = catch(|| rt.block_on(async {
                    if cached { Ok::<E, casbin::Error>(E::Cached(CachedEnforcer::new(m, FaultyBox(a2)).await?)) }
                    else { Ok(E::Plain(Enforcer::new(m, FaultyBox(a2)).await?)) }
                }));
                return match r {
                    None => "panic".into(),
                    Some(Err(e)) => { self.enf = None; format!("err:{}", err_kind(&e)) }
                    Some(Ok(e)) => { self.enf = Some(e); "ok".into() }
                };
            }
            "e.newfilt" => {
                // the adapter handed to the constructor has just served an adapter-level filtered load into the
                // model handed to it (so it may report is_filtered)
                self.conf = self.spec.conf();
                let mut a1 = self.mk_adapter(rt, f[1], f[2], f[3]);
                self.events.lock().clear();
                self.kept_rm = None;
                let conf = self.conf.clone();
                let cached = self.cached;
                let (fp, fg) = (dec_list(f[4]), dec_list(f[5]));
                let r = catch(|| rt.block_on(async {
                    let mut m = DefaultModel::from_str(&conf).await?;
                    let filt = Filter { p: fp.iter().map(|s| s.as_str()).collect(), g: fg.iter().map(|s| s.as_str()).collect() };
                    a1.load_filtered_policy(&mut m, filt).await?;
                    if cached { Ok::<E, casbin::Error>(E::Cached(CachedEnforcer::new(m, FaultyBox(a1)).await?)) }
                    else { Ok(E::Plain(Enforcer::new(m, FaultyBox(a1)).await?)) }
                }));
                return match r {
                    None => "panic".into(),
                    Some(Err(e)) => { self.enf = None; format!("err:{}", err_kind(&e)) }
                    Some(Ok(e)) => { self.enf = Some(e); "ok".into() }
                };
            }
            "e.new" => {
                self.conf = self.spec.conf();
                let a = self.mk_adapter(rt, f[1], f[2], f[3]);
                self.events.lock().clear();
                self.kept_rm = None;
                let conf = self.conf.clone();
                let cached = self.cached;
                let spec = self.spec.clone();
                let r = catch(|| rt.block_on(async {
                    let m = spec.build(&conf).await?;
                    if cached { Ok::<E, casbin::Error>(E::Cached(CachedEnforcer::new(m, FaultyBox(a)).await?)) }
                    else { Ok(E::Plain(Enforcer::new(m, FaultyBox(a)).await?)) }
                }));
                return match r {
                    None => "panic".into(),
                    Some(Err(e)) => { self.enf = None; format!("err:{}", err_kind(&e)) }
                    Some(Ok(mut e)) => {
                        if f[4] == "w" { with_e!(&mut e, x => x.set_watcher(Box::new(RecWatcher(self.events.clone())))); }
                        self.enf = Some(e);
                        "ok".into()
                    }
                };
            }
            _ => {}
        }
        if f[0] == "fs.blocktmp" || f[0] == "fs.unblocktmp" {
            // a directory where the file adapter creates its temporary file: every write of the adapter itself then fails
            return match &self.file_path { Some(p) => { let t = format!("{}.tmp", p); if f[0] == "fs.blocktmp" { std::fs::remove_file(&t).ok(); std::fs::create_dir_all(&t).ok(); } else { std::fs::remove_dir(&t).ok(); } "ok".into() } None => "no-file".into() };
        }
        if f[0] == "fs.unlink" {
            return match &self.file_path { Some(p) => { std::fs::remove_file(p).ok(); "ok".into() } None => "no-file".into() };
        }
        if f[0] == "e.setadapter" {
            let a = self.mk_adapter(rt, f[1], f[2], f[3]);
            if f.len() > 4 && f[4] != "-" {
                let mut p = self.shared.plan.lock();
                for it in f[4].split(',') {
                    p.push_back(match it { "err" => Fault::Err, "refuse" => Fault::Refuse, "pass" => Fault::Pass,
                        s if s.starts_with("fail") => Fault::FailAfter(s[4..].parse().unwrap()), _ => Fault::Pass });
                }
            }
            let e = match self.enf.as_mut() { Some(e) => e, None => return "no-enforcer".into() };
            let r = catch(|| rt.block_on(async { with_e!(e, x => x.set_adapter(FaultyBox(a)).await) }));
            return r.map(res_u).unwrap_or_else(|| "panic".into());
        }
        let conf = self.spec.conf();
        let shared = self.shared.clone();
        let events = self.events.clone();
        let kept = &mut self.kept_rm;
        let e = match self.enf.as_mut() { Some(e) => e, None => return "no-enforcer".into() };
        let r = catch(|| -> String {
            let sv = |s: &str| -> Vec<String> { dec_list(s) };
            match f[0] {
                // The five management calls go through the public API in all its spellings: the plain call (`add_policy`), the
                // named variant (`add_named_policy`), the RBAC helper where one exists (`add_permission_for_user`,
                // `add_role_for_user`, ...) or the internal function itself. Which one is a function of the op text, so a
                // replay makes the same choice; all of them are specified to do the same thing.
                "e.add" => { let (sec, pt, r) = (f[1], f[2], sv(f[3])); let v = variant(f);
                    res_b(rt.block_on(async { with_e!(e, x => match (sec, pt == sec, v % 4) {
                        ("p", true, 0) => x.add_policy(r).await,
                        ("p", _, 1) => x.add_named_policy(pt, r).await,
                        ("p", true, 2) if !r.is_empty() => x.add_permission_for_user(&r[0].clone(), r[1..].to_vec()).await,
                        ("g", true, 0) => x.add_grouping_policy(r).await,
                        ("g", _, 1) => x.add_named_grouping_policy(pt, r).await,
                        ("g", true, 2) if r.len() == 2 || r.len() == 3 => x.add_role_for_user(&r[0].clone(), &r[1].clone(), r.get(2).cloned().as_deref()).await,
                        _ => x.add_policy_internal(sec, pt, r).await }) })) }
                "e.addm" => { let (sec, pt, rs) = (f[1], f[2], dec_lists(f[3])); let v = variant(f);
                    let same_user = !rs.is_empty() && rs.iter().all(|r| !r.is_empty() && r[0] == rs[0][0]);
                    let roles_shape = same_user && rs.iter().all(|r| r.len() == rs[0].len() && (r.len() == 2 || (r.len() == 3 && r[2] == rs[0][2])));
                    res_b(rt.block_on(async { with_e!(e, x => match (sec, pt == sec, v % 4) {
                        ("p", true, 0) => x.add_policies(rs).await,
                        ("p", _, 1) => x.add_named_policies(pt, rs).await,
                        ("p", true, 2) if same_user => x.add_permissions_for_user(&rs[0][0].clone(), rs.iter().map(|r| r[1..].to_vec()).collect()).await,
                        ("g", true, 0) => x.add_grouping_policies(rs).await,
                        ("g", _, 1) => x.add_named_grouping_policies(pt, rs).await,
                        ("g", true, 2) if roles_shape => x.add_roles_for_user(&rs[0][0].clone(), rs.iter().map(|r| r[1].clone()).collect(), rs[0].get(2).cloned().as_deref()).await,
                        _ => x.add_policies_internal(sec, pt, rs).await }) })) }
                "e.rm" => { let (sec, pt, r) = (f[1], f[2], sv(f[3])); let v = variant(f);
                    res_b(rt.block_on(async { with_e!(e, x => match (sec, pt == sec, v % 4) {
                        ("p", true, 0) => x.remove_policy(r).await,
                        ("p", _, 1) => x.remove_named_policy(pt, r).await,
                        ("p", true, 2) if !r.is_empty() => x.delete_permission_for_user(&r[0].clone(), r[1..].to_vec()).await,
                        ("g", true, 0) => x.remove_grouping_policy(r).await,
                        ("g", _, 1) => x.remove_named_grouping_policy(pt, r).await,
                        ("g", true, 2) if r.len() == 2 || r.len() == 3 => x.delete_role_for_user(&r[0].clone(), &r[1].clone(), r.get(2).cloned().as_deref()).await,
                        _ => x.remove_policy_internal(sec, pt, r).await }) })) }
                "e.rmm" => { let (sec, pt, rs) = (f[1], f[2], dec_lists(f[3])); let v = variant(f);
                    res_b(rt.block_on(async { with_e!(e, x => match (sec, pt == sec, v % 3) {
                        ("p", true, 0) => x.remove_policies(rs).await,
                        ("p", _, 1) => x.remove_named_policies(pt, rs).await,
                        ("g", true, 0) => x.remove_grouping_policies(rs).await,
                        ("g", _, 1) => x.remove_named_grouping_policies(pt, rs).await,
                        _ => x.remove_policies_internal(sec, pt, rs).await }) })) }
                "e.rmf" => { let (sec, pt, idx, vals) = (f[1], f[2], f[3].parse::<usize>().unwrap(), sv(f[4])); let v = variant(f);
                    res_b(rt.block_on(async { with_e!(e, x => match (sec, pt == sec, v % 4) {
                        ("p", true, 0) => x.remove_filtered_policy(idx, vals).await,
                        ("p", _, 1) => x.remove_filtered_named_policy(pt, idx, vals).await,
                        ("p", true, 2) if idx == 0 && vals.len() == 1 => x.delete_permissions_for_user(&vals[0].clone()).await,
                        ("p", true, 2) if idx == 1 => x.delete_permission(vals).await,
                        ("g", true, 0) => x.remove_filtered_grouping_policy(idx, vals).await,
                        ("g", _, 1) => x.remove_filtered_named_grouping_policy(pt, idx, vals).await,
                        ("g", true, 2) if idx == 0 && vals.len() == 1 => x.delete_roles_for_user(&vals[0].clone(), None).await,
                        ("g", true, 2) if idx == 0 && vals.len() == 3 && vals[1].is_empty() => x.delete_roles_for_user(&vals[0].clone(), Some(&vals[2].clone())).await,
                        _ => x.remove_filtered_policy_internal(sec, pt, idx, vals).await.map(|r| r.0) }) })) }
                "e.deluser" => res_b(rt.block_on(async { with_e!(e, x => x.delete_user(&unesc(f[1])).await) })),
                "e.delrole" => res_b(rt.block_on(async { with_e!(e, x => x.delete_role(&unesc(f[1])).await) })),
                "e.delperm" => res_b(rt.block_on(async { with_e!(e, x => x.delete_permission(sv(f[1])).await) })),
                "e.rolematch" => {
                    // implementation only: pattern role / domain names (outside the Lean role-graph model)
                    let pick = |n: &str| -> Option<casbin::MatchingFn> { match n { "keyMatch" => Some(casbin::function_map::key_match), "keyMatch2" => Some(casbin::function_map::key_match2), _ => None } };
                    with_e!(&*e, x => x.get_role_manager().write().matching_fn(pick(f[1]), pick(f[2])));
                    "ok".into()
                }
                "e.clear" => res_u(rt.block_on(async { with_e!(e, x => x.clear_policy().await) })),
                "e.load" => res_u(rt.block_on(async { with_e!(e, x => x.load_policy().await) })),
                "e.loadc" => { let r = res_u(rt.block_on(async { with_e!(e, x => x.load_policy().await) })); if r.starts_with("err") { "err".into() } else { r } }
                "e.loadfc" => {
                    // error class only (the kind of a failed load is adapter-specific)
                    let fp = sv(f[1]); let fg = sv(f[2]);
                    let filt = Filter { p: fp.iter().map(|s| s.as_str()).collect(), g: fg.iter().map(|s| s.as_str()).collect() };
                    let r = res_u(rt.block_on(async { with_e!(e, x => x.load_filtered_policy(filt).await) }));
                    if r.starts_with("err") { "err".into() } else { r }
                }
                "e.loadf" => {
                    let fp = sv(f[1]); let fg = sv(f[2]);
                    let filt = Filter { p: fp.iter().map(|s| s.as_str()).collect(), g: fg.iter().map(|s| s.as_str()).collect() };
                    res_u(rt.block_on(async { with_e!(e, x => x.load_filtered_policy(filt).await) }))
                }
                "e.save" => res_u(rt.block_on(async { with_e!(e, x => x.save_policy().await) })),
                "e.build" => res_u(with_e!(e, x => x.build_role_links())),
                "e.setrm" => {
                    if f.len() > 1 && f[1] == "kept" {
                        match kept.clone() { Some(h) => res_u(with_e!(e, x => x.set_role_manager(h))), None => "no-kept".into() }
                    } else { res_u(with_e!(e, x => x.set_role_manager(Arc::new(RwLock::new(DefaultRoleManager::new(10)))))) }
                }
                "e.setmodel" => res_u(rt.block_on(async {
                    let m = DefaultModel::from_str(&conf).await?;
                    with_e!(e, x => x.set_model(m).await)
                })),
                "e.fault" => {
                    let mut p = shared.plan.lock();
                    p.clear();
                    if f[1] != "-" {
                        for it in f[1].split(',') {
                            p.push_back(match it { "err" => Fault::Err, "refuse" => Fault::Refuse, "pass" => Fault::Pass,
                                s if s.starts_with("fail") => Fault::FailAfter(s[4..].parse().unwrap()), _ => Fault::Pass });
                        }
                    }
                    "ok".into()
                }
                "e.auto" => {
                    let v = f[2] == "true";
                    match f[1] {
                        "save" => with_e!(e, x => x.enable_auto_save(v)),
                        "build" => with_e!(e, x => x.enable_auto_build_role_links(v)),
                        "notify" => with_e!(e, x => x.enable_auto_notify_watcher(v)),
                        "enforce" => with_e!(e, x => x.enable_enforce(v)),
                        _ => {}
                    }
                    "ok".into()
                }
                "e.addfn" => {
                    let imp: fn(ImmutableString, ImmutableString) -> Dynamic = match f.get(2).copied().unwrap_or("eq") { "ne" => ne_fn, "true" => true_fn, _ => eq_fn };
                    with_e!(e, x => x.add_function(&unesc(f[1]), OperatorFunction::Arg2(imp))); "ok".into()
                }
                "e.rmh" => {
                    // the caller edits the role manager through the handle it kept
                    match kept.clone() {
                        None => "no-kept".into(),
                        Some(h) => {
                            if f[1] == "add" { h.write().add_link(&unesc(f[2]), &unesc(f[3]), dom_opt(f[4]).as_deref()); } else { h.write().clear(); }
                            "ok".into()
                        }
                    }
                }
                "e.keeprm" => { *kept = Some(with_e!(&*e, x => x.get_role_manager())); "ok".into() }
                "e.seteft" => { with_e!(e, x => x.set_effector(Box::new(casbin::DefaultEffector))); "ok".into() }
                "e.enf" => {
                    let vals: Vec<Dynamic> = f[1..].iter().map(|s| parse_val(s)).collect();
                    res_b(with_e!(&*e, x => x.enforce(vals)))
                }
                "e.enfc" => {
                    let vals: Vec<Dynamic> = f[2..].iter().map(|s| parse_val(s)).collect();
                    res_b(with_e!(&*e, x => x.enforce_with_context(EnforceContext::new(&unesc(f[1])), vals)))
                }
                "e.enfs" | "e.enfcs" => {
                    let ctx = f[0] == "e.enfcs";
                    let reqs = if ctx { f[2] } else { f[1] };
                    let mut out = String::new();
                    for r in reqs.split(';') {
                        let vals: Vec<Dynamic> = if r == "|" { vec![] } else { r.split(',').map(parse_val).collect() };
                        // a plain request goes through enforce, enforce_mut or enforce_ex (same decision by specification);
                        // which one is a function of the request text
                        let v = variant(&[r]) % 5;
                        // ... or, when every value is a string, as a tuple (the README's way: serde conversion per element)
                        let strs: Option<Vec<String>> = if r == "|" { None } else { r.split(',').map(|x| x.strip_prefix("s:").map(unesc)).collect() };
                        // ... or, for an attribute record followed by two strings, as a tuple holding a serialisable record (ABAC the
                        // README's way: serde turns the record into a rhai map)
                        if !ctx && v == 3 {
                            let parts: Vec<&str> = if r == "|" { vec![] } else { r.split(',').collect() };
                            if parts.len() == 3 { if let (Some(rec0), Some(s1), Some(s2)) = (parse_rec(parts[0]), parts[1].strip_prefix("s:").map(unesc), parts[2].strip_prefix("s:").map(unesc)) {
                                let res = catch(|| with_e!(&*e, x => x.enforce((rec0.clone(), s1.clone(), s2.clone()))));
                                out.push(out_c(res));
                                continue;
                            } }
                        }
                        if !ctx && v == 4 { if let Some(t) = strs.as_ref().filter(|t| (1..=5).contains(&t.len())) {
                            let t = t.clone();
                            let res = catch(|| with_e!(&*e, x => match t.len() {
                                1 => x.enforce((t[0].as_str(),)),
                                2 => x.enforce((t[0].as_str(), t[1].as_str())),
                                3 => x.enforce((t[0].as_str(), t[1].as_str(), t[2].as_str())),
                                4 => x.enforce((t[0].as_str(), t[1].as_str(), t[2].as_str(), t[3].as_str())),
                                _ => x.enforce((t[0].clone(), t[1].clone(), t[2].clone(), t[3].clone(), t[4].clone())),
                            }));
                            out.push(out_c(res));
                            continue;
                        } }
                        let res = catch(|| if ctx {
                            with_e!(&*e, x => x.enforce_with_context(EnforceContext::new(&unesc(f[1])), vals))
                        } else if v == 1 { with_e!(&mut *e, x => x.enforce_mut(vals)) }
                        else if v == 2 { with_e!(&*e, x => x.enforce_ex(vals).map(|r| r.0)) }
                        else { with_e!(&*e, x => x.enforce(vals)) });
                        out.push(out_c(res));
                    }
                    out
                }
                "e.enfx" => {
                    let mut out = String::new();
                    for r in f[5].split(';') {
                        let vals: Vec<Dynamic> = if r == "|" { vec![] } else { r.split(',').map(parse_val).collect() };
                        let ctx = EnforceContext { r_type: f[1].to_string(), p_type: f[2].to_string(), e_type: f[3].to_string(), m_type: f[4].to_string() };
                        let res = catch(|| with_e!(&*e, x => x.enforce_with_context(ctx, vals)));
                        out.push(out_c(res));
                    }
                    out
                }
                "e.pol" => format!("{} {}", enc_lists(&with_e!(&*e, x => x.get_all_policy())), enc_lists(&with_e!(&*e, x => x.get_all_grouping_policy()))),
                // the read side likewise: plain call, named variant, RBAC helper or the model's own function
                "e.get" => { let (sec, pt) = (f[1], f[2]); let v = variant(f);
                    enc_lists(&with_e!(&*e, x => match (sec, pt == sec, v % 3) {
                        ("p", true, 0) => x.get_policy(), ("p", _, 1) => x.get_named_policy(pt),
                        ("g", true, 0) => x.get_grouping_policy(), ("g", _, 1) => x.get_named_grouping_policy(pt),
                        _ => x.get_model().get_policy(sec, pt) })) }
                "e.has" => { let (sec, pt, r) = (f[1], f[2], sv(f[3])); let v = variant(f);
                    bool_s(with_e!(&*e, x => match (sec, pt == sec, v % 4) {
                        ("p", true, 0) => x.has_policy(r), ("p", _, 1) => x.has_named_policy(pt, r),
                        ("p", true, 2) if !r.is_empty() => x.has_permission_for_user(&r[0].clone(), r[1..].to_vec()),
                        ("g", true, 0) => x.has_grouping_policy(r), ("g", _, 1) => x.has_grouping_named_policy(pt, r),
                        _ => x.get_model().has_policy(sec, pt, r) })).to_string() }
                "e.getf" => { let (sec, pt, idx, vals) = (f[1], f[2], f[3].parse::<usize>().unwrap(), sv(f[4])); let v = variant(f);
                    enc_lists(&with_e!(&*e, x => match (sec, pt == sec, v % 3) {
                        ("p", true, 0) => x.get_filtered_policy(idx, vals), ("p", _, 1) => x.get_filtered_named_policy(pt, idx, vals),
                        ("g", true, 0) => x.get_filtered_grouping_policy(idx, vals), ("g", _, 1) => x.get_filtered_named_grouping_policy(pt, idx, vals),
                        _ => x.get_model().get_filtered_policy(sec, pt, idx, vals) })) }
                "e.vals" => { let (sec, pt, idx) = (f[1], f[2], f[3].parse::<usize>().unwrap()); let v = variant(f);
                    enc_list(&with_e!(&*e, x => match (sec, idx, pt == sec, v % 3) {
                        ("p", 0, true, 0) => x.get_all_subjects(), ("p", 0, _, 1) => x.get_all_named_subjects(pt),
                        ("p", 1, true, 0) => x.get_all_objects(), ("p", 1, _, 1) => x.get_all_named_objects(pt),
                        ("p", 2, true, 0) => x.get_all_actions(), ("p", 2, _, 1) => x.get_all_named_actions(pt),
                        ("g", 1, true, 0) => x.get_all_roles(), ("g", 1, _, 1) => x.get_all_named_roles(pt),
                        _ => x.get_model().get_values_for_field_in_policy(sec, pt, idx) })) }
                "e.roles" => enc_list(&sorted(with_e!(&*e, x => x.get_roles_for_user(&unesc(f[1]), dom_opt(f[2]).as_deref())))),
                "e.users" => enc_list(&sorted(with_e!(&*e, x => x.get_users_for_role(&unesc(f[1]), dom_opt(f[2]).as_deref())))),
                "e.hasrole" => bool_s(with_e!(&*e, x => x.has_role_for_user(&unesc(f[1]), &unesc(f[2]), dom_opt(f[3]).as_deref()))).to_string(),
                "e.iroles" => enc_list(&sorted(with_e!(&*e, x => x.get_implicit_roles_for_user(&unesc(f[1]), dom_opt(f[2]).as_deref())))),
                "e.perms" => enc_lists(&with_e!(&*e, x => x.get_permissions_for_user(&unesc(f[1]), dom_opt(f[2]).as_deref()))),
                "e.iperms" => {
                    let mut v = with_e!(&*e, x => x.get_implicit_permissions_for_user(&unesc(f[1]), dom_opt(f[2]).as_deref()));
                    v.sort_by_key(|r| enc_list(r));
                    enc_lists(&v)
                }
                "e.iusers" => enc_list(&sorted(rt.block_on(async { with_e!(&*e, x => x.get_implicit_users_for_permission(sv(f[1])).await) }))),
                "e.filtered" => bool_s(with_e!(&*e, x => x.is_filtered())).to_string(),
                "e.events" => {
                    let mut ev = events.lock();
                    let s = if ev.is_empty() { "-".to_string() } else { ev.join(" ") };
                    ev.clear();
                    s
                }
                _ => "bad-op".to_string(),
            }
        });
        r.unwrap_or_else(|| "panic".to_string())
    }

    /// load the adapter's contents into a scratch model (bypassing injected faults) and list them
    pub fn reload_scratch(&mut self, rt: &tokio::runtime::Runtime) -> String {
        let conf = self.conf.clone();
        let shared = self.shared.clone();
        let e = match self.enf.as_mut() { Some(e) => e, None => return "no-enforcer".into() };
        shared.bypass.store(true, Ordering::SeqCst);
        let r = catch(|| rt.block_on(async {
            let mut m = DefaultModel::from_str(&conf).await?;
            with_e!(e, x => x.get_mut_adapter().load_policy(&mut m).await)?;
            let mut p: Vec<Vec<String>> = vec![];
            let mut g: Vec<Vec<String>> = vec![];
            for (sec, out) in [("p", &mut p), ("g", &mut g)] {
                if let Some(ast_map) = m.get_model().get(sec) {
                    for (key, ast) in ast_map {
                        for r in ast.get_policy() {
                            let mut x = vec![sec.to_string(), key.clone()];
                            x.extend(r.iter().cloned());
                            out.push(x);
                        }
                    }
                }
            }
            Ok::<String, casbin::Error>(format!("{} {}", enc_lists(&p), enc_lists(&g)))
        }));
        shared.bypass.store(false, Ordering::SeqCst);
        match r { None => "panic".into(), Some(Ok(s)) => s, Some(Err(e)) => format!("err:{}", err_kind(&e)) }
    }
}

impl Drop for EnfWorld {
    fn drop(&mut self) {
        if let Some(p) = self.file_path.take() { std::fs::remove_file(p).ok(); }
    }
}

/// `Box<dyn Adapter>` as an `Adapter` (so that it can be handed to `Enforcer::new`)
pub struct FaultyBox(pub Box<dyn Adapter>);

#[async_trait]
impl Adapter for FaultyBox {
    async fn load_policy(&mut self, m: &mut dyn Model) -> casbin::Result<()> { self.0.load_policy(m).await }
    async fn load_filtered_policy<'a>(&mut self, m: &mut dyn Model, f: Filter<'a>) -> casbin::Result<()> { self.0.load_filtered_policy(m, f).await }
    async fn save_policy(&mut self, m: &mut dyn Model) -> casbin::Result<()> { self.0.save_policy(m).await }
    async fn clear_policy(&mut self) -> casbin::Result<()> { self.0.clear_policy().await }
    fn is_filtered(&self) -> bool { self.0.is_filtered() }
    async fn add_policy(&mut self, sec: &str, ptype: &str, rule: Vec<String>) -> casbin::Result<bool> { self.0.add_policy(sec, ptype, rule).await }
    async fn add_policies(&mut self, sec: &str, ptype: &str, rules: Vec<Vec<String>>) -> casbin::Result<bool> { self.0.add_policies(sec, ptype, rules).await }
    async fn remove_policy(&mut self, sec: &str, ptype: &str, rule: Vec<String>) -> casbin::Result<bool> { self.0.remove_policy(sec, ptype, rule).await }
    async fn remove_policies(&mut self, sec: &str, ptype: &str, rules: Vec<Vec<String>>) -> casbin::Result<bool> { self.0.remove_policies(sec, ptype, rules).await }
    async fn remove_filtered_policy(&mut self, sec: &str, ptype: &str, i: usize, v: Vec<String>) -> casbin::Result<bool> { self.0.remove_filtered_policy(sec, ptype, i, v).await }
}

const ACL_CONF: &str = "[request_definition]\nr = sub, obj, act\n[policy_definition]\np = sub, obj, act\n[policy_effect]\ne = some(where (p.eft == allow))\n[matchers]\nm = r.sub == p.sub && r.obj == p.obj && r.act == p.act\n";

fn render_file(rules: &[Vec<String>]) -> String {
    rules.iter().map(|r| { let f: Vec<String> = r.iter().map(|x| if x.contains(',') { format!("\"{}\"", x) } else { x.clone() }).collect(); format!("p, {}\n", f.join(",")) }).collect()
}

/// child process of the crash-point check: the policy file holds the OLD policy; make the NEW one
/// the in-memory policy, limit the file size to `k` bytes, call save_policy. Exit code 0 = Ok, 1 = Err.
pub fn c10_child(_conf: &str, path: &str, new_enc: &str, k: u64) -> i32 {
    let rt = tokio::runtime::Builder::new_current_thread().enable_all().build().unwrap();
    let new = dec_lists(new_enc);
    let path = path.to_string();
    let r = rt.block_on(async move {
        let m = DefaultModel::from_str(ACL_CONF).await?;
        let mut e = Enforcer::new(m, FileAdapter::new(path)).await?;
        e.enable_auto_save(false);
        let old = e.get_policy();
        e.remove_policies(old).await?;
        for r in new { e.add_policy(r).await?; }
        unsafe {
            libc::signal(libc::SIGXFSZ, libc::SIG_IGN);
            let lim = libc::rlimit { rlim_cur: k, rlim_max: k };
            libc::setrlimit(libc::RLIMIT_FSIZE, &lim);
        }
        e.save_policy().await
    });
    match r { Ok(()) => 0, Err(_) => 1 }
}

/// parent side: write OLD, run the child with limit k, read the file back through a fresh FileAdapter
pub fn fs_crash(rt: &tokio::runtime::Runtime, old: &[Vec<String>], new: &[Vec<String>], k: u64) -> String {
    let dir = "/verif/target/tmp";
    std::fs::create_dir_all(dir).ok();
    let n = FILE_CTR.fetch_add(1, Ordering::SeqCst);
    let path = format!("{}/crash{}-{}{}", dir, std::process::id(), n, FILE_EXTS[n as usize % FILE_EXTS.len()]);
    std::fs::write(&path, render_file(old)).unwrap();
    let exe = std::env::current_exe().unwrap();
    let st = std::process::Command::new(exe).args(["c10child", "-", &path, &enc_lists(new), &k.to_string()]).status();
    let code = st.map(|s| s.code().unwrap_or(-1)).unwrap_or(-2);
    let p2 = path.clone();
    let back = rt.block_on(async move {
        let mut m = DefaultModel::from_str(ACL_CONF).await?;
        let mut a = FileAdapter::new(p2);
        a.load_policy(&mut m).await?;
        Ok::<Vec<Vec<String>>, casbin::Error>(m.get_policy("p", "p"))
    });
    let raw = std::fs::read(&path).unwrap_or_default();
    std::fs::remove_file(&path).ok();
    std::fs::remove_file(format!("{}.tmp", path)).ok();
    std::fs::remove_file(std::path::Path::new(&path).with_extension("tmp")).ok();
    match back {
        Err(_) => format!("corrupt:unreadable:{}", code),
        Ok(rules) => {
            if rules == old && raw == render_file(old).as_bytes() { "old".to_string() }
            else if rules == new && raw == render_file(new).as_bytes() { "new".to_string() }
            else { format!("corrupt:{}:{}", enc_lists(&rules), code) }
        }
    }
}
