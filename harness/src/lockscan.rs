//! Syntactic pass over /repo/src (C20): every acquisition of a reader-writer lock, the extent of
//! its guard, and the calls made while the guard is alive that may lock again.  The result is
//! turned into the lock programs of `Conc.lean`; `Conc.disc` decides whether the hypothesis of
//! the no-deadlock theorem holds for them.
//!
//! Guard extent (Rust's temporary rules, conservatively):
//!  * `let g = <acq>;` (possibly behind `?`, parentheses, a reference)  -> the rest of the block,
//!    up to an explicit `drop(g)`;
//!  * acquisition in the scrutinee of `match` / `if let` / `while let` or in a `for` iterator
//!    -> the whole expression, arms and body included;
//!  * otherwise -> the enclosing statement (or closure body / function tail expression).
//! Calls are resolved by name (methods of the same name are merged): an over-approximation.
use std::collections::{BTreeMap, BTreeSet};
use syn::spanned::Spanned;
use syn::visit::{self, Visit};

/// method names of std traits and collections: a call by such a name is not resolved to a crate
/// function of the same name (calls are resolved by name only, without types)
pub const COMMON: [&str; 60] = ["get", "get_mut", "new", "default", "clone", "from", "into", "from_str", "iter", "iter_mut", "into_iter", "map",
    "insert", "push", "len", "is_empty", "contains", "contains_key", "remove", "clear", "extend", "next", "fmt", "eq", "hash", "drop", "to_string",
    "as_str", "parse", "unwrap", "expect", "ok", "err", "collect", "filter", "find", "any", "all", "entry", "or_insert_with", "set", "has", "take",
    "as_ref", "as_mut", "borrow", "to_owned", "join", "split", "trim", "with_capacity", "keys", "values", "cmp", "partial_cmp", "try_into", "try_from",
    "write_str", "flush", "index"];

#[derive(Clone, Debug)]
pub struct Site {
    pub file: String,
    pub line: usize,
    pub col: usize,
    pub func: String,
    pub mode: char,
    pub lock: usize,
    pub scope: &'static str,
    /// calls (name, line, col) made while the guard is alive
    pub calls: Vec<(String, usize, usize)>,
    /// other acquisitions (line, col, mode, lock) while the guard is alive
    pub inner_acqs: Vec<(usize, usize, char, usize)>,
}

#[derive(Default, Clone, Debug)]
pub struct FnInfo {
    pub file: String,
    pub receiver: Option<char>, // 'R' for &self, 'W' for &mut self
    /// events in source order
    pub events: Vec<Ev>,
    pub sites: Vec<Site>,
    pub calls_register_fn: bool,
}

#[derive(Clone, Debug)]
pub enum Ev { Acq(usize), Call(String, usize, usize) }

#[derive(Default)]
pub struct Scan {
    pub fns: BTreeMap<String, Vec<FnInfo>>,
    pub problems: Vec<String>,
    pub files: usize,
}

fn is_test_attr(attrs: &[syn::Attribute]) -> bool {
    attrs.iter().any(|a| {
        let p = a.path().segments.iter().map(|s| s.ident.to_string()).collect::<Vec<_>>().join("::");
        if p == "cfg" { let t = a.meta.to_token_stream_string(); return t.contains("test"); }
        p.ends_with("test")
    })
}

trait TS { fn to_token_stream_string(&self) -> String; }
impl<T: quote::ToTokens> TS for T { fn to_token_stream_string(&self) -> String { self.to_token_stream().to_string() } }

fn lock_of(recv: &syn::Expr) -> usize {
    let t = recv.to_token_stream_string();
    let idents: Vec<&str> = t.split(|c: char| !(c.is_alphanumeric() || c == '_')).filter(|s| !s.is_empty()).collect();
    if idents.iter().any(|i| *i == "rm" || i.ends_with("_rm") || *i == "get_role_manager" || i.contains("role_manager")) { 1 } else { 2 }
}

/// `x.read()` / `x.write()` / `x.lock()` with no arguments
fn as_acq(e: &syn::Expr) -> Option<(char, usize, usize, usize)> {
    if let syn::Expr::MethodCall(mc) = e {
        if mc.args.is_empty() && mc.turbofish.is_none() {
            let m = match mc.method.to_string().as_str() { "read" | "read_recursive" => 'R', "write" | "lock" => 'W', _ => return None };
            let s = mc.method.span().start();
            return Some((m, lock_of(&mc.receiver), s.line, s.column));
        }
    }
    None
}

fn peel(e: &syn::Expr) -> &syn::Expr {
    match e {
        syn::Expr::Paren(p) => peel(&p.expr),
        syn::Expr::Try(t) => peel(&t.expr),
        syn::Expr::Reference(r) => peel(&r.expr),
        syn::Expr::Group(g) => peel(&g.expr),
        syn::Expr::Await(a) => peel(&a.base),
        syn::Expr::MethodCall(mc) if mc.args.is_empty() && ["unwrap", "expect"].contains(&mc.method.to_string().as_str()) => peel(&mc.receiver),
        _ => e,
    }
}

/// all calls and acquisitions inside a node, in source order
#[derive(Default)]
struct Collect { calls: Vec<(String, usize, usize)>, acqs: Vec<(usize, usize, char, usize)> }
impl<'ast> Visit<'ast> for Collect {
    fn visit_expr_method_call(&mut self, mc: &'ast syn::ExprMethodCall) {
        visit::visit_expr_method_call(self, mc);
        let e = syn::Expr::MethodCall(mc.clone());
        if let Some((m, l, line, col)) = as_acq(&e) { self.acqs.push((line, col, m, l)); }
        else { let s = mc.method.span().start(); self.calls.push((mc.method.to_string(), s.line, s.column)); }
    }
    fn visit_expr_call(&mut self, c: &'ast syn::ExprCall) {
        visit::visit_expr_call(self, c);
        if let syn::Expr::Path(p) = &*c.func { if let Some(seg) = p.path.segments.last() { let s = seg.ident.span().start(); self.calls.push((seg.ident.to_string(), s.line, s.column)); } }
    }
    fn visit_macro(&mut self, m: &'ast syn::Macro) {
        let name = m.path.segments.last().map(|s| s.ident.to_string()).unwrap_or_default();
        let s = m.path.span().start();
        self.calls.push((format!("{}!", name), s.line, s.column));
        // arguments of expression-like macros (format!, vec!, assert!...) are visited when they parse
        if let Ok(args) = m.parse_body_with(syn::punctuated::Punctuated::<syn::Expr, syn::Token![,]>::parse_terminated) {
            for a in args.iter() { self.visit_expr(a); }
        }
    }
}

enum Frame<'ast> { Stmt(&'ast syn::Stmt), Expr(&'ast syn::Expr, &'static str) }

struct FnVisitor<'ast> {
    file: String,
    func: String,
    frames: Vec<Frame<'ast>>,
    blocks: Vec<&'ast syn::Block>,
    info: FnInfo,
    bound: BTreeSet<(usize, usize)>,
    problems: Vec<String>,
    scrutinee_owner: Vec<ScrOwner<'ast>>,
    tail: Option<&'ast syn::Expr>,
}

impl<'ast> FnVisitor<'ast> {
    fn site_from(&mut self, m: char, lock: usize, line: usize, col: usize, scope: &'static str, c: Collect) {
        let inner_acqs = c.acqs.into_iter().filter(|a| (a.0, a.1) != (line, col)).collect();
        let site = Site { file: self.file.clone(), line, col, func: self.func.clone(), mode: m, lock, scope, calls: c.calls, inner_acqs };
        self.info.events.push(Ev::Acq(self.info.sites.len()));
        self.info.sites.push(site);
    }
}

impl<'ast> Visit<'ast> for FnVisitor<'ast> {
    fn visit_item(&mut self, _i: &'ast syn::Item) { /* nested items are scanned on their own */ }
    fn visit_block(&mut self, b: &'ast syn::Block) {
        self.blocks.push(b);
        visit::visit_block(self, b);
        self.blocks.pop();
    }
    fn visit_stmt(&mut self, s: &'ast syn::Stmt) {
        // a tail expression does not end the life of its temporaries: it belongs to the enclosing frame
        let is_tail = matches!(s, syn::Stmt::Expr(_, None));
        if !is_tail { self.frames.push(Frame::Stmt(s)); }
        // `let g = <acq>;`: the guard lives to the end of the block (or an explicit drop)
        if let syn::Stmt::Local(l) = s {
            if let Some(init) = &l.init {
                if let Some((m, lock, line, col)) = as_acq(peel(&init.expr)) {
                    let name = match &l.pat { syn::Pat::Ident(pi) => Some(pi.ident.to_string()), syn::Pat::Type(pt) => if let syn::Pat::Ident(pi) = &*pt.pat { Some(pi.ident.to_string()) } else { None }, _ => None };
                    let is_wild = matches!(&l.pat, syn::Pat::Wild(_));
                    if !is_wild {
                        let blk = *self.blocks.last().unwrap();
                        let pos = blk.stmts.iter().position(|x| std::ptr::eq(x, s)).unwrap_or(0);
                        let mut c = Collect::default();
                        for later in blk.stmts.iter().skip(pos + 1) {
                            if let (Some(n), syn::Stmt::Expr(syn::Expr::Call(call), _)) = (&name, later) {
                                if call.func.to_token_stream_string().ends_with("drop") && call.args.len() == 1 && call.args[0].to_token_stream_string() == *n { break; }
                            }
                            c.visit_stmt(later);
                        }
                        // the receiver expression of the acquisition itself is evaluated before the guard exists
                        self.bound.insert((line, col));
                        self.site_from(m, lock, line, col, "let", c);
                    }
                }
            }
        }
        visit::visit_stmt(self, s);
        if !is_tail { self.frames.pop(); }
    }
    fn visit_expr_closure(&mut self, c: &'ast syn::ExprClosure) {
        self.frames.push(Frame::Expr(&c.body, "closure-body"));
        visit::visit_expr_closure(self, c);
        self.frames.pop();
    }
    fn visit_expr_match(&mut self, m: &'ast syn::ExprMatch) {
        self.frames.push(Frame::Expr(&m.expr, "scrutinee:match"));
        self.scrutinee_owner.push(ScrOwner::Match(m));
        self.visit_expr(&m.expr);
        self.scrutinee_owner.pop();
        self.frames.pop();
        for a in &m.arms { self.visit_arm(a); }
    }
    fn visit_expr_if(&mut self, i: &'ast syn::ExprIf) {
        if let syn::Expr::Let(l) = &*i.cond {
            self.frames.push(Frame::Expr(&l.expr, "scrutinee:if-let"));
            self.scrutinee_owner.push(ScrOwner::If(i));
            self.visit_expr(&l.expr);
            self.scrutinee_owner.pop();
            self.frames.pop();
            self.visit_block(&i.then_branch);
            if let Some((_, e)) = &i.else_branch { self.visit_expr(e); }
        } else { visit::visit_expr_if(self, i); }
    }
    fn visit_expr_while(&mut self, w: &'ast syn::ExprWhile) {
        if let syn::Expr::Let(l) = &*w.cond {
            self.frames.push(Frame::Expr(&l.expr, "scrutinee:while-let"));
            self.scrutinee_owner.push(ScrOwner::While(w));
            self.visit_expr(&l.expr);
            self.scrutinee_owner.pop();
            self.frames.pop();
            self.visit_block(&w.body);
        } else { visit::visit_expr_while(self, w); }
    }
    fn visit_expr_for_loop(&mut self, f: &'ast syn::ExprForLoop) {
        self.frames.push(Frame::Expr(&f.expr, "scrutinee:for"));
        self.scrutinee_owner.push(ScrOwner::For(f));
        self.visit_expr(&f.expr);
        self.scrutinee_owner.pop();
        self.frames.pop();
        self.visit_block(&f.body);
    }
    fn visit_expr_method_call(&mut self, mc: &'ast syn::ExprMethodCall) {
        visit::visit_expr_method_call(self, mc);
        let e = syn::Expr::MethodCall(mc.clone());
        if let Some((m, lock, line, col)) = as_acq(&e) {
            if self.bound.contains(&(line, col)) { return; }
            // innermost frame decides the extent of the temporary guard
            let mut c = Collect::default();
            let scope: &'static str = match self.frames.last() {
                Some(Frame::Stmt(s)) => { c.visit_stmt(s); "statement" }
                Some(Frame::Expr(_, k)) if k.starts_with("scrutinee") => {
                    match self.scrutinee_owner.last() {
                        Some(ScrOwner::Match(m)) => c.visit_expr_match(m),
                        Some(ScrOwner::If(i)) => c.visit_expr_if(i),
                        Some(ScrOwner::While(w)) => c.visit_expr_while(w),
                        Some(ScrOwner::For(f)) => c.visit_expr_for_loop(f),
                        None => {}
                    }
                    k
                }
                Some(Frame::Expr(b, k)) => { c.visit_expr(b); k }
                None => { if let Some(t) = self.tail { c.visit_expr(t); } "tail-expression" }
            };
            self.site_from(m, lock, line, col, scope, c);
        } else {
            let s = mc.method.span().start();
            self.info.events.push(Ev::Call(mc.method.to_string(), s.line, s.column));
            if mc.method == "register_fn" { self.info.calls_register_fn = true; }
        }
    }
    fn visit_expr_call(&mut self, c: &'ast syn::ExprCall) {
        visit::visit_expr_call(self, c);
        if let syn::Expr::Path(p) = &*c.func { if let Some(seg) = p.path.segments.last() { let s = seg.ident.span().start(); self.info.events.push(Ev::Call(seg.ident.to_string(), s.line, s.column)); } }
    }
    fn visit_macro(&mut self, m: &'ast syn::Macro) {
        let name = m.path.segments.last().map(|s| s.ident.to_string()).unwrap_or_default();
        let s = m.path.span().start();
        self.info.events.push(Ev::Call(format!("{}!", name), s.line, s.column));
        match m.parse_body_with(syn::punctuated::Punctuated::<syn::Expr, syn::Token![,]>::parse_terminated) {
            Ok(args) => {
                // parsed copies do not live in the AST: collect their calls/acquisitions conservatively as one statement
                let mut c = Collect::default();
                for a in args.iter() { c.visit_expr(a); }
                for (n, l, col) in &c.calls { self.info.events.push(Ev::Call(n.clone(), *l, *col)); }
                for (line, col, m2, lock) in c.acqs.clone() {
                    let mut c2 = Collect::default();
                    for a in args.iter() { c2.visit_expr(a); }
                    self.site_from(m2, lock, line, col, "macro-argument", c2);
                }
            }
            Err(_) => {
                let t = m.tokens.to_string();
                if t.contains(". read (") || t.contains(". write (") || t.contains(". lock (") {
                    self.problems.push(format!("{}:{}: macro {}! takes a lock in arguments the pass cannot parse", self.file, s.line, name));
                }
            }
        }
    }
}

enum ScrOwner<'ast> { Match(&'ast syn::ExprMatch), If(&'ast syn::ExprIf), While(&'ast syn::ExprWhile), For(&'ast syn::ExprForLoop) }

// extra state kept outside the struct literal above for readability
impl<'ast> FnVisitor<'ast> {
    fn new(file: &str, func: &str, tail: Option<&'ast syn::Expr>) -> Self {
        FnVisitor { file: file.to_string(), func: func.to_string(), frames: vec![], blocks: vec![], info: FnInfo { file: file.to_string(), ..Default::default() }, bound: BTreeSet::new(), problems: vec![], scrutinee_owner: vec![], tail }
    }
}

fn scan_fn<'ast>(scan: &mut Scan, file: &str, name: &str, recv: Option<char>, block: &'ast syn::Block) {
    let tail = match block.stmts.last() { Some(syn::Stmt::Expr(e, None)) => Some(e), _ => None };
    let mut v = FnVisitor::new(file, name, tail);
    v.visit_block(block);
    v.info.receiver = recv;
    scan.problems.extend(v.problems);
    scan.fns.entry(name.to_string()).or_default().push(v.info);
}

fn recv_of(sig: &syn::Signature) -> Option<char> {
    sig.inputs.iter().find_map(|a| if let syn::FnArg::Receiver(r) = a { Some(if r.mutability.is_some() { 'W' } else { 'R' }) } else { None })
}

fn scan_items(scan: &mut Scan, file: &str, items: &[syn::Item]) {
    for it in items {
        match it {
            syn::Item::Fn(f) => { if !is_test_attr(&f.attrs) { scan_fn(scan, file, &f.sig.ident.to_string(), recv_of(&f.sig), &f.block); } }
            syn::Item::Impl(im) => {
                if is_test_attr(&im.attrs) { continue; }
                for ii in &im.items { if let syn::ImplItem::Fn(f) = ii { if !is_test_attr(&f.attrs) { scan_fn(scan, file, &f.sig.ident.to_string(), recv_of(&f.sig), &f.block); } } }
            }
            syn::Item::Trait(t) => {
                for ti in &t.items { if let syn::TraitItem::Fn(f) = ti { if let Some(b) = &f.default { scan_fn(scan, file, &f.sig.ident.to_string(), recv_of(&f.sig), b); } } }
            }
            syn::Item::Mod(m) => {
                if is_test_attr(&m.attrs) { continue; }
                if let Some((_, items)) = &m.content { scan_items(scan, file, items); }
            }
            syn::Item::Macro(m) => {
                // macro_rules!: each transcriber `=> { ... }` is scanned as the body of a pseudo function `<name>!`
                if let Some(id) = &m.ident {
                    let mut toks: Vec<proc_macro2::TokenTree> = m.mac.tokens.clone().into_iter().collect();
                    let mut i = 0;
                    let mut found = false;
                    while i + 3 < toks.len() + 1 {
                        if i + 3 <= toks.len() {
                            if let (proc_macro2::TokenTree::Punct(a), proc_macro2::TokenTree::Punct(b), proc_macro2::TokenTree::Group(g)) = (&toks[i], &toks[i + 1], &toks[i + 2]) {
                                if a.as_char() == '=' && b.as_char() == '>' {
                                    let body = strip_dollars(g.stream());
                                    let text = format!("{{ {} }}", body);
                                    match syn::parse_str::<syn::Block>(&text) {
                                        Ok(blk) => {
                                            // parse_str loses the original positions; lines are relative to the macro body
                                            let blk: &'static syn::Block = Box::leak(Box::new(blk));
                                            scan_fn(scan, file, &format!("{}!", id), None, blk);
                                            found = true;
                                        }
                                        Err(e) => {
                                            let t = g.stream().to_string();
                                            if t.contains(". read (") || t.contains(". write (") || t.contains(". lock (") {
                                                scan.problems.push(format!("{}: macro_rules! {} takes a lock in a body the pass cannot parse ({})", file, id, e));
                                            }
                                        }
                                    }
                                }
                            }
                        }
                        i += 1;
                    }
                    let _ = (&mut toks, found);
                }
            }
            _ => {}
        }
    }
}

fn strip_dollars(ts: proc_macro2::TokenStream) -> proc_macro2::TokenStream {
    let mut out = vec![];
    let mut it = ts.into_iter().peekable();
    while let Some(t) = it.next() {
        match t {
            proc_macro2::TokenTree::Punct(p) if p.as_char() == '$' => { /* drop the sigil: `$x` becomes `x` */ }
            proc_macro2::TokenTree::Group(g) => {
                let mut ng = proc_macro2::Group::new(g.delimiter(), strip_dollars(g.stream()));
                ng.set_span(g.span());
                out.push(proc_macro2::TokenTree::Group(ng));
            }
            other => out.push(other),
        }
    }
    out.into_iter().collect()
}

pub fn scan_dir(root: &str) -> Scan {
    let mut scan = Scan::default();
    let mut stack = vec![std::path::PathBuf::from(root)];
    let mut files = vec![];
    while let Some(d) = stack.pop() {
        if let Ok(rd) = std::fs::read_dir(&d) {
            for e in rd.flatten() {
                let p = e.path();
                if p.is_dir() { stack.push(p); } else if p.extension().map(|x| x == "rs").unwrap_or(false) { files.push(p); }
            }
        }
    }
    files.sort();
    for p in files {
        let rel = p.strip_prefix(root).unwrap_or(&p).to_string_lossy().to_string();
        let text = match std::fs::read_to_string(&p) { Ok(t) => t, Err(e) => { scan.problems.push(format!("{}: unreadable: {}", rel, e)); continue; } };
        match syn::parse_file(&text) {
            Ok(f) => { scan.files += 1; scan_items(&mut scan, &rel, &f.items); }
            Err(e) => scan.problems.push(format!("{}: does not parse: {}", rel, e)),
        }
    }
    scan
}

impl Scan {
    /// names whose call may take a lock (least fixpoint over the name-based call graph);
    /// evaluating a rhai script calls the registered closures
    pub fn locking(&self) -> BTreeMap<String, char> {
        let mut lock: BTreeMap<String, char> = BTreeMap::new();
        let registered_locks = self.fns.values().flatten().any(|f| f.calls_register_fn && !f.sites.is_empty());
        loop {
            let mut changed = false;
            for (name, infos) in &self.fns {
                for f in infos {
                    let mut m: Option<char> = None;
                    for s in &f.sites { m = Some(if s.mode == 'W' || m == Some('W') { 'W' } else { 'R' }); }
                    for ev in &f.events { if let Ev::Call(n, _, _) = ev {
                        if COMMON.contains(&n.as_str()) { continue; }
                        if let Some(c) = lock.get(n) { m = Some(if *c == 'W' || m == Some('W') { 'W' } else { 'R' }); }
                        if registered_locks && (n.starts_with("eval") || n == "call_fn") && !self.fns.contains_key(n) { m = Some(m.unwrap_or('R')); }
                    } }
                    if let Some(mm) = m {
                        // registering closures does not run them
                        if f.calls_register_fn && name.ends_with('!') { continue; }
                        let cur = lock.get(name).copied();
                        let new = if cur == Some('W') || mm == 'W' { 'W' } else { 'R' };
                        if cur != Some(new) { lock.insert(name.clone(), new); changed = true; }
                    }
                }
            }
            if !changed { break; }
        }
        if registered_locks { for n in ["eval_ast_with_scope", "eval_with_scope", "eval_ast", "eval", "call_fn"] { lock.entry(n.to_string()).or_insert('R'); } }
        lock
    }

    /// the lock program of one function body: its sites in order, with what happens under each guard, and
    /// the locking calls made outside any guard inlined (depth-limited)
    pub fn prog(&self, f: &FnInfo, locking: &BTreeMap<String, char>, depth: usize, out: &mut Vec<String>) {
        let mut accounted: BTreeSet<(usize, usize)> = BTreeSet::new();
        for s in &f.sites { for (_, l, c) in &s.calls { accounted.insert((*l, *c)); } for (l, c, _, _) in &s.inner_acqs { accounted.insert((*l, *c)); } }
        for ev in &f.events {
            match ev {
                Ev::Acq(i) => {
                    let s = &f.sites[*i];
                    if accounted.contains(&(s.line, s.col)) && f.sites.iter().any(|o| o.inner_acqs.iter().any(|a| (a.0, a.1) == (s.line, s.col)) && (o.line, o.col) < (s.line, s.col)) { continue; }
                    out.push(format!("a{}{}", s.mode, s.lock));
                    for (_, _, m, l) in &s.inner_acqs { out.push(format!("a{}{}", m, l)); out.push("t".into()); out.push(format!("r{}{}", m, l)); }
                    for (n, _, _) in &s.calls { self.inline_call(n, locking, depth, out); }
                    out.push("t".into());
                    out.push(format!("r{}{}", s.mode, s.lock));
                }
                Ev::Call(n, l, c) => { if !accounted.contains(&(*l, *c)) { self.inline_call(n, locking, depth, out); } }
            }
        }
    }

    fn inline_call(&self, n: &str, locking: &BTreeMap<String, char>, depth: usize, out: &mut Vec<String>) {
        if COMMON.contains(&n) { return; }
        let Some(m) = locking.get(n) else { return };
        if depth == 0 || out.len() > 400 { out.push(format!("a{}1", m)); out.push("t".into()); out.push(format!("r{}1", m)); return; }
        match self.fns.get(n) {
            Some(infos) => {
                // merged names: take the definition with the longest program (the most demanding one)
                let mut best: Vec<String> = vec![];
                for f in infos { let mut o = vec![]; self.prog(f, locking, depth - 1, &mut o); if o.len() > best.len() { best = o; } }
                out.extend(best);
            }
            None => { out.push(format!("a{}1", m)); out.push("t".into()); out.push(format!("r{}1", m)); }
        }
    }
}
