//! C18 — a reconfigured enforcer equals a freshly built one.
use crate::ast::*;
use crate::c01::*;
use crate::interp::World;
use crate::mgmt::*;
use crate::proto::*;

fn family() -> Vec<Kind> {
    let ks = kinds();
    let mut out: Vec<Kind> = ["acl", "rbac", "resource-roles", "domains", "keymatch2", "superuser"].iter().map(|n| ks.iter().find(|k| k.name == *n).unwrap().clone()).collect();
    // a model whose matcher calls a user function
    let mut k = ks[0].clone();
    k.name = "acl-user-function";
    k.m = and(and(Ex::Call2("eqFn".into(), b(Ex::R(0)), b(Ex::P(0))), eq(Ex::R(1), Ex::P(1))), eq(Ex::R(2), Ex::P(2)));
    out.push(k);
    out
}

fn observe(rec: &mut Recorder, w: &mut World, k: &Kind) -> String {
    let mut s = rec.exec(w, "e.pol");
    s.push_str(" / ");
    s.push_str(&rec.exec(w, &format!("e.enfs\t{}", enc_reqs(&requests(k)))));
    for n in ["alice", "bob", "admin"] {
        s.push('|'); s.push_str(&rec.exec(w, &format!("e.roles\t{}\t-", n)));
        s.push('|'); s.push_str(&rec.exec(w, &format!("e.iroles\t{}\t-", n)));
        s.push('|'); s.push_str(&rec.exec(w, &format!("e.iperms\t{}\t-", n)));
    }
    s
}

fn gen_lines(rng: &mut Rng, k: &Kind) -> Vec<Vec<String>> {
    let mut rules = vec![];
    for _ in 0..rng.below(5) { let r = gen_rule(rng, k, false); if !rules.contains(&r) { rules.push(r); } }
    let links = gen_links(rng, k);
    let mut lines = lines_of("p", &rules, &k.g, &links);
    lines.dedup();
    let mut seen = vec![]; lines.retain(|l| if seen.contains(l) { false } else { seen.push(l.clone()); true });
    lines
}

pub fn run(rec: &mut Recorder, w: &mut World, tier: &str, seed: u64) {
    let mut rng = Rng::new(seed);
    let fam = family();
    let reps = (if tier == "thorough" { 40 } else { 12 }) * rec.budget as usize;
    // all ordered pairs (old, new) of the family
    for (oi, old) in fam.iter().enumerate() { for (ni, newk) in fam.iter().enumerate() { for rep in 0..reps {
        rec.begin();
        let mut cur = old.clone();
        let mut shadow: Vec<Vec<String>> = gen_lines(&mut rng, &cur);
        let mold = model_of(&cur, E_ALLOW, false, "", false);
        if new_enforcer(rec, w, &mold, "memory", &shadow, "", false) != "ok" { continue; }
        let mut addfn = false;
        let mut descr = vec![format!("start {}", cur.name)];
        let n_reconf = 1 + rng.below(3);
        let mut did_setmodel = false;
        for ci in 0..n_reconf {
            // management calls in between (valid for the current model)
            for _ in 0..rng.below(3) {
                if rng.chance(2, 3) {
                    let r = gen_rule(&mut rng, &cur, false);
                    let out = rec.exec(w, &MOp::Add("p".into(), "p".into(), r.clone()).line());
                    let mut l = sv(&["p", "p"]); l.extend(r);
                    if out == "true" && !shadow.contains(&l) { shadow.push(l); }
                } else if !cur.g.is_empty() {
                    let gi = rng.below(cur.g.len());
                    let r = rng.pick(&cur.links[gi]).clone();
                    let add = rng.chance(2, 3);
                    let op = if add { MOp::Add("g".into(), cur.g[gi].0.clone(), r.clone()) } else { MOp::Rm("g".into(), cur.g[gi].0.clone(), r.clone()) };
                    let out = rec.exec(w, &op.line());
                    let mut l = vec!["g".to_string(), cur.g[gi].0.clone()]; l.extend(r);
                    if out == "true" { if add { if !shadow.contains(&l) { shadow.push(l); } } else { shadow.retain(|x| *x != l); } }
                }
                rec.count("op:management");
            }
            // one reconfiguration call; the first is always set_model(new) so that every ordered pair is exercised
            let which = if ci == 0 { 0 } else { rng.below(6) };
            match which {
                0 => { let target = if did_setmodel { rng.pick(&fam).clone() } else { newk.clone() }; did_setmodel = true;
                       model_of(&target, E_ALLOW, false, "", false).emit(rec, w); let o = rec.exec(w, "e.setmodel"); descr.push(format!("set_model({}) -> {}", target.name, o)); cur = target; rec.count("op:set_model"); }
                1 => { let l = gen_lines(&mut rng, &cur); let o = rec.exec(w, &format!("e.setadapter\tmemory\t{}\t", enc_lists(&l))); shadow = l; descr.push(format!("set_adapter -> {}", o)); rec.count("op:set_adapter"); }
                2 => { let o = rec.exec(w, "e.setrm"); descr.push(format!("set_role_manager -> {}", o)); rec.count("op:set_role_manager"); }
                3 => { rec.exec(w, "e.seteft"); descr.push("set_effector".into()); rec.count("op:set_effector"); }
                4 => { rec.exec(w, "e.addfn\teqFn"); addfn = true; descr.push("add_function(eqFn)".into()); rec.count("op:add_function"); }
                _ => { let o = rec.exec(w, "e.load"); descr.push(format!("load_policy -> {}", o)); rec.count("op:load_policy"); }
            }
        }
        let a = observe(rec, w, &cur);
        // the fresh enforcer: same model, a MemoryAdapter holding the same lines, the same components
        let mcur = model_of(&cur, E_ALLOW, false, "", false);
        let r0 = new_enforcer(rec, w, &mcur, "memory", &shadow, "", false);
        if addfn && r0 == "ok" { rec.exec(w, "e.addfn\teqFn"); }
        let bfresh = if r0 == "ok" { observe(rec, w, &cur) } else { format!("construction failed: {}", r0) };
        if r0 == "ok" && a != bfresh {
            rec.fail("reconfigured-differs-from-fresh", format!("[{} -> {}] {}: reconfigured {} but fresh {}", old.name, newk.name, descr.join(" ; "), a, bfresh));
        }
        rec.count(if r0 == "ok" { "fresh:built" } else { "fresh:construction-failed" });
        rec.nontrivial_case(&format!("{}|{}|{}|{}", oi, ni, rep, descr.join("|")));
        if oi == 0 && ni == 1 && rep == 0 { rec.sample(descr.join(" ; ")); }
    } } }
    rec.count_n("ordered-model-pairs", (fam.len() * fam.len()) as u64);
}
