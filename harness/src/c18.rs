//! C18 — a reconfigured enforcer equals a freshly built one.
use crate::ast::*;
use crate::c01::*;
use crate::interp::World;
use crate::mgmt::*;
use crate::proto::*;

fn family() -> Vec<Kind> {
    let ks = kinds();
    let mut out: Vec<Kind> = ["acl", "rbac", "resource-roles", "domains", "keymatch2", "superuser"].iter().map(|n| ks.iter().find(|k| k.name == *n).unwrap().clone()).collect();
    // a model whose matcher calls a user function
    let mut k = ks[0].clone();
    k.name = "acl-user-function";
    k.m = and(and(Ex::Call2("eqFn".into(), b(Ex::R(0)), b(Ex::P(0))), eq(Ex::R(1), Ex::P(1))), eq(Ex::R(2), Ex::P(2)));
    out.push(k);
    out
}

fn observe(rec: &mut Recorder, w: &mut World, k: &Kind) -> String {
    let mut s = rec.exec(w, "e.pol");
    s.push_str(" / ");
    s.push_str(&rec.exec(w, &format!("e.enfs\t{}", enc_reqs(&requests(k)))));
    for n in ["alice", "bob", "admin"] {
        s.push('|'); s.push_str(&rec.exec(w, &format!("e.roles\t{}\t-", n)));
        s.push('|'); s.push_str(&rec.exec(w, &format!("e.iroles\t{}\t-", n)));
        s.push('|'); s.push_str(&rec.exec(w, &format!("e.iperms\t{}\t-", n)));
    }
    s
}

fn gen_lines(rng: &mut Rng, k: &Kind) -> Vec<Vec<String>> {
    let mut rules = vec![];
    for _ in 0..rng.below(5) { let r = gen_rule(rng, k, false); if !rules.contains(&r) { rules.push(r); } }
    let links = gen_links(rng, k);
    let mut lines = lines_of("p", &rules, &k.g, &links);
    lines.dedup();
    let mut seen = vec![]; lines.retain(|l| if seen.contains(l) { false } else { seen.push(l.clone()); true });
    lines
}

pub fn run(rec: &mut Recorder, w: &mut World, tier: &str, seed: u64) {
    let mut rng = Rng::new(seed);
    let fam = family();
    let reps = (if tier == "thorough" { 40 } else { 12 }) * rec.budget as usize;
    // all ordered pairs (old, new) of the family
    for (oi, old) in fam.iter().enumerate() { for (ni, newk) in fam.iter().enumerate() { for rep in 0..reps {
        rec.begin();
        let mut cur = old.clone();
        let mut shadow: Vec<Vec<String>> = gen_lines(&mut rng, &cur);
        let mold = model_of(&cur, E_ALLOW, false, "", false);
        if new_enforcer(rec, w, &mold, "memory", &shadow, "", false) != "ok" { continue; }
        let mut addfn: Option<&str> = None;
        let mut descr = vec![format!("start {}", cur.name)];
        // the caller keeps a handle to the original role manager and may hand it back later
        let keep = rng.chance(1, 2);
        if keep { rec.exec(w, "e.keeprm"); descr.push("keep the role-manager handle".into()); }
        let n_reconf = 1 + rng.below(3);
        let mut did_setmodel = false;
        for ci in 0..n_reconf {
            // management calls in between (valid for the current model)
            for _ in 0..rng.below(3) {
                if rng.chance(2, 3) {
                    let r = gen_rule(&mut rng, &cur, false);
                    let out = rec.exec(w, &MOp::Add("p".into(), "p".into(), r.clone()).line());
                    let mut l = sv(&["p", "p"]); l.extend(r);
                    if out == "true" && !shadow.contains(&l) { shadow.push(l); }
                } else if !cur.g.is_empty() {
                    let gi = rng.below(cur.g.len());
                    let r = rng.pick(&cur.links[gi]).clone();
                    let add = rng.chance(2, 3);
                    let op = if add { MOp::Add("g".into(), cur.g[gi].0.clone(), r.clone()) } else { MOp::Rm("g".into(), cur.g[gi].0.clone(), r.clone()) };
                    let out = rec.exec(w, &op.line());
                    let mut l = vec!["g".to_string(), cur.g[gi].0.clone()]; l.extend(r);
                    if out == "true" { if add { if !shadow.contains(&l) { shadow.push(l); } } else { shadow.retain(|x| *x != l); } }
                }
                rec.count("op:management");
            }
            // one reconfiguration call; the first is always set_model(new) so that every ordered pair is exercised
            let which = if ci == 0 { 0 } else { rng.below(8) };
            match which {
                0 => { let target = if did_setmodel { rng.pick(&fam).clone() } else { newk.clone() }; did_setmodel = true;
                       model_of(&target, E_ALLOW, false, "", false).emit(rec, w); let o = rec.exec(w, "e.setmodel"); descr.push(format!("set_model({}) -> {}", target.name, o)); cur = target; rec.count("op:set_model"); }
                1 => { let l = gen_lines(&mut rng, &cur); let o = rec.exec(w, &format!("e.setadapter\tmemory\t{}\t", enc_lists(&l))); shadow = l; descr.push(format!("set_adapter -> {}", o)); rec.count("op:set_adapter"); }
                2 => { let o = rec.exec(w, "e.setrm"); descr.push(format!("set_role_manager(fresh) -> {}", o)); rec.count("op:set_role_manager");
                       // a link removed while the kept manager is detached: the kept one still holds it
                       if keep && !cur.g.is_empty() && rng.chance(2, 3) {
                           let pol = rec.exec(w, "e.pol"); let parts: Vec<&str> = pol.split(' ').collect();
                           let gl = dec_lists(parts[1]);
                           if !gl.is_empty() { let l = rng.pick(&gl).clone(); let out = rec.exec(w, &MOp::Rm("g".into(), l[1].clone(), l[2..].to_vec()).line());
                               if out == "true" { shadow.retain(|x| *x != l); } descr.push(format!("remove {:?} -> {}", l, out)); }
                       } }
                6 => { if keep { let o = rec.exec(w, "e.setrm\tkept"); descr.push(format!("set_role_manager(kept handle) -> {}", o)); rec.count("op:set_role_manager-kept"); } }
                7 => { let imp = *rng.pick(&["ne", "true", "eq"]); rec.exec(w, &format!("e.addfn\teqFn\t{}", imp)); addfn = Some(imp); descr.push(format!("add_function(eqFn := {})", imp)); rec.count("op:add_function-replace"); }
                3 => { rec.exec(w, "e.seteft"); descr.push("set_effector".into()); rec.count("op:set_effector"); }
                4 => { rec.exec(w, "e.addfn\teqFn\teq"); addfn = Some("eq"); descr.push("add_function(eqFn := eq)".into()); rec.count("op:add_function"); }
                _ => { let o = rec.exec(w, "e.load"); descr.push(format!("load_policy -> {}", o)); rec.count("op:load_policy"); }
            }
        }
        let a = observe(rec, w, &cur);
        // the fresh enforcer: same model, a MemoryAdapter holding the same lines, the same components
        let mcur = model_of(&cur, E_ALLOW, false, "", false);
        let r0 = new_enforcer(rec, w, &mcur, "memory", &shadow, "", false);
        if let (Some(imp), true) = (addfn, r0 == "ok") { rec.exec(w, &format!("e.addfn\teqFn\t{}", imp)); }
        let bfresh = if r0 == "ok" { observe(rec, w, &cur) } else { format!("construction failed: {}", r0) };
        if r0 == "ok" && a != bfresh {
            rec.fail("reconfigured-differs-from-fresh", format!("[{} -> {}] {}: reconfigured {} but fresh {}", old.name, newk.name, descr.join(" ; "), a, bfresh));
        }
        rec.count(if r0 == "ok" { "fresh:built" } else { "fresh:construction-failed" });
        rec.nontrivial_case(&format!("{}|{}|{}|{}", oi, ni, rep, descr.join("|")));
        if oi == 0 && ni == 1 && rep == 0 { rec.sample(descr.join(" ; ")); }
    } } }
    rec.count_n("ordered-model-pairs", (fam.len() * fam.len()) as u64);

    // ---- directed histories: components handed back or registered again ----
    let compare = |rec: &mut Recorder, w: &mut World, k: &Kind, shadow: &[Vec<String>], addfn: Option<&str>, descr: &[String], what: &str| {
        let a = observe(rec, w, k);
        let m = model_of(k, E_ALLOW, false, "", false);
        let r0 = new_enforcer(rec, w, &m, "memory", shadow, "", false);
        if let (Some(imp), true) = (addfn, r0 == "ok") { rec.exec(w, &format!("e.addfn\teqFn\t{}", imp)); }
        if r0 == "ok" { let bfresh = observe(rec, w, k); if a != bfresh { rec.fail("reconfigured-differs-from-fresh", format!("[{}] {}: reconfigured {} but fresh {}", what, descr.join(" ; "), a, bfresh)); } }
        rec.count(&format!("directed:{}", what));
    };
    let n_dir = (if tier == "thorough" { 60 } else { 12 }) * rec.budget as usize;
    // (1) a kept role-manager handle that went stale while detached is handed back
    for k in fam.iter().filter(|k| !k.g.is_empty()) { for _ in 0..n_dir {
        rec.begin();
        let mut shadow = gen_lines(&mut rng, k);
        let m = model_of(k, E_ALLOW, false, "", false);
        if new_enforcer(rec, w, &m, "memory", &shadow, "", false) != "ok" { continue; }
        let mut descr = vec![format!("start {} with {:?}", k.name, shadow)];
        rec.exec(w, "e.keeprm");
        // half of the time the automatic link building is off: links are then built by an explicit call at the end
        let manual = rng.chance(1, 2);
        if manual { rec.exec(w, "e.auto\tbuild\tfalse"); descr.push("enable_auto_build_role_links(false)".into()); }
        descr.push(format!("keep handle; set_role_manager(fresh) -> {}", rec.exec(w, "e.setrm")));
        for _ in 0..1 + rng.below(3) {
            let gi = rng.below(k.g.len());
            let glines: Vec<Vec<String>> = shadow.iter().filter(|l| l[0] == "g" && l[1] == k.g[gi].0).cloned().collect();
            let (op, l) = if !glines.is_empty() && rng.chance(2, 3) { let l = rng.pick(&glines).clone(); (MOp::Rm("g".into(), l[1].clone(), l[2..].to_vec()), l) }
                          else { let r = rng.pick(&k.links[gi]).clone(); let mut l = vec!["g".to_string(), k.g[gi].0.clone()]; l.extend(r.clone()); (MOp::Add("g".into(), k.g[gi].0.clone(), r), l) };
            let out = rec.exec(w, &op.line());
            if out == "true" { if matches!(op, MOp::Rm(..)) { shadow.retain(|x| *x != l); } else if !shadow.contains(&l) { shadow.push(l.clone()); } }
            descr.push(format!("{} -> {}", op.line().replace('\t', " "), out));
        }
        if !manual || rng.chance(1, 2) { descr.push(format!("set_role_manager(kept handle) -> {}", rec.exec(w, "e.setrm\tkept"))); }
        if manual { descr.push(format!("build_role_links -> {}", rec.exec(w, "e.build"))); }
        compare(rec, w, k, &shadow, None, &descr, "kept-role-manager-handed-back");
        rec.nontrivial_case(&descr.join("|"));
    } }
    // (1c) the installed role manager is edited through the handle the caller holds (a stray link, or emptied) and the very
    //      same handle is handed to set_role_manager: the call rebuilds the links from the stored rules, like a fresh enforcer
    for k in fam.iter().filter(|k| !k.g.is_empty()) { for it in 0..n_dir {
        rec.begin();
        let mut shadow = gen_lines(&mut rng, k);
        let m = model_of(k, E_ALLOW, false, "", false);
        // every other history on a CachedEnforcer: the decisions observed while the stray edits were in place must not be served
        // after the manager has been handed back
        let cached = it % 2 == 1;
        rec.exec(w, &format!("e.cached\t{}", cached));
        if new_enforcer(rec, w, &m, "memory", &shadow, "", false) != "ok" { rec.exec(w, "e.cached\tfalse"); continue; }
        let mut descr = vec![format!("start {}{} with {:?}", k.name, if cached { " (cached)" } else { "" }, shadow)];
        rec.exec(w, "e.keeprm");
        for _ in 0..rng.below(3) {
            let gi = rng.below(k.g.len());
            let r = rng.pick(&k.links[gi]).clone(); let mut l = vec!["g".to_string(), k.g[gi].0.clone()]; l.extend(r.clone());
            let op = MOp::Add("g".into(), k.g[gi].0.clone(), r);
            let out = rec.exec(w, &op.line());
            if out == "true" && !shadow.contains(&l) { shadow.push(l); }
            descr.push(format!("{} -> {}", op.line().replace('\t', " "), out));
        }
        if it % 3 == 2 { descr.push(format!("handle.clear() -> {}", rec.exec(w, "e.rmh\tclear"))); }
        else {
            for _ in 0..1 + rng.below(2) {
                let gi = rng.below(k.g.len());
                let r = rng.pick(&k.links[gi]).clone();
                let dom = if r.len() > 2 { esc(&r[2]) } else { "-".to_string() };
                descr.push(format!("handle.add_link({:?}) -> {}", r, rec.exec(w, &format!("e.rmh\tadd\t{}\t{}\t{}", esc(&r[0]), esc(&r[1]), dom))));
            }
        }
        let _ = observe(rec, w, k);
        descr.push(format!("set_role_manager(the same handle) -> {}", rec.exec(w, "e.setrm\tkept")));
        compare(rec, w, k, &shadow, None, &descr, "installed-role-manager-edited-and-handed-back");
        rec.exec(w, "e.cached\tfalse");
        rec.nontrivial_case(&descr.join("|"));
    } }
    // (1b) set_role_manager while a stored grouping rule cannot be linked (the rebuild fails), the bad rule removed
    //      afterwards and the history continued: the enforcer must not stay split between two managers
    //      (one role definition, the bad rule last: a failed rebuild has then linked every other stored rule; with
    //      more definitions the later ones stay unlinked after the reported failure, which is not this property's concern)
    for k in fam.iter().filter(|k| k.g.len() == 1 && k.g[0].1 == 2) { for _ in 0..n_dir.max(4) {
        rec.begin();
        let mut shadow = gen_lines(&mut rng, k);
        let m = model_of(k, E_ALLOW, false, "", false);
        if new_enforcer(rec, w, &m, "memory", &shadow, "", false) != "ok" { continue; }
        let gk = k.g[0].0.clone();
        let mut descr = vec![format!("start {} with {:?}", k.name, shadow)];
        let good = rng.pick(&k.links[0]).clone();
        let o = rec.exec(w, &MOp::AddM("g".into(), gk.clone(), vec![good.clone(), sv(&["zz"])]).line());
        descr.push(format!("add_named_grouping_policies([{:?}, [zz]]) -> {}", good, o));
        descr.push(format!("set_role_manager(fresh) -> {}", rec.exec(w, "e.setrm")));
        descr.push(format!("remove [zz] -> {}", rec.exec(w, &MOp::Rm("g".into(), gk.clone(), sv(&["zz"])).line())));
        for _ in 0..1 + rng.below(3) {
            let r = rng.pick(&k.links[0]).clone();
            let o = rec.exec(w, &MOp::Add("g".into(), gk.clone(), r.clone()).line());
            descr.push(format!("add {:?} -> {}", r, o));
        }
        // the shadow store is whatever the enforcer now lists
        let pol = rec.exec(w, "e.pol"); let parts: Vec<&str> = pol.split(' ').collect();
        shadow = dec_lists(parts[0]).into_iter().chain(dec_lists(parts[1]).into_iter()).collect();
        compare(rec, w, k, &shadow, None, &descr, "set-role-manager-with-failing-rebuild");
        rec.nontrivial_case(&descr.join("|"));
    } }
    // (3) the adapter stays while the enforcer is reconfigured: after a filtered load that left rules out, a set_model (which
    //     reloads everything through the kept adapter) or a plain load_policy; the filtered flag and what save_policy
    //     answers must then be those of a fresh enforcer over the same store
    for kind in ["string", "file", "memory"] { for k in fam.iter().filter(|k| k.name == "acl" || k.name == "rbac") { for it in 0..(n_dir / 2).max(3) {
        rec.begin();
        let mut lines = gen_lines(&mut rng, k);
        if !lines.iter().any(|l| l[0] == "p" && l[2] == "bob") { lines.push(sv(&["p", "p", "bob", "data2", "write"])); }
        if !lines.iter().any(|l| l[0] == "p" && l[2] == "alice") { lines.push(sv(&["p", "p", "alice", "data1", "read"])); }
        let text: String = lines.iter().map(|l| format!("{}\n", l[1..].join(", "))).collect();
        let m = model_of(k, E_ALLOW, false, "", false);
        if new_enforcer(rec, w, &m, kind, &lines, &text, false) != "ok" { continue; }
        let mut descr = vec![format!("start {} over a {} adapter holding {:?}", k.name, kind, lines)];
        descr.push(format!("load_filtered_policy(p: [alice]) -> {}", rec.exec(w, &format!("e.loadf\t{}\t{}", enc_list(&sv(&["alice"])), enc_list(&Vec::<String>::new())))));
        descr.push(format!("is_filtered -> {}", rec.exec(w, "e.filtered")));
        if it % 2 == 0 { m.emit(rec, w); descr.push(format!("set_model(the same model) -> {}", rec.exec(w, "e.setmodel"))); }
        else { descr.push(format!("load_policy -> {}", rec.exec(w, "e.load"))); }
        let a = format!("{} | filtered={} | save={}", observe(rec, w, k), rec.exec(w, "e.filtered"), rec.exec(w, "e.save"));
        let r0 = new_enforcer(rec, w, &m, kind, &lines, &text, false);
        if r0 == "ok" {
            let bfresh = format!("{} | filtered={} | save={}", observe(rec, w, k), rec.exec(w, "e.filtered"), rec.exec(w, "e.save"));
            if a != bfresh { rec.fail("reconfigured-differs-from-fresh", format!("[adapter-kept-after-filtered-load] {}: reconfigured {} but fresh {}", descr.join(" ; "), a, bfresh)); }
        }
        rec.count(&format!("directed:adapter-kept-after-filtered-load:{}", kind));
        rec.nontrivial_case(&descr.join("|"));
    } } }
    // (2) a function registered again under the same name
    let kf = fam.iter().find(|k| k.name == "acl-user-function").unwrap().clone();
    for a in ["eq", "ne", "true"] { for bimp in ["eq", "ne", "true"] { for _ in 0..(n_dir / 6).max(1) {
        rec.begin();
        let shadow = gen_lines(&mut rng, &kf);
        let m = model_of(&kf, E_ALLOW, false, "", false);
        if new_enforcer(rec, w, &m, "memory", &shadow, "", false) != "ok" { continue; }
        let mut descr = vec![format!("start {} with {:?}", kf.name, shadow)];
        rec.exec(w, &format!("e.addfn\teqFn\t{}", a)); descr.push(format!("add_function(eqFn := {})", a));
        let _ = observe(rec, w, &kf);
        rec.exec(w, &format!("e.addfn\teqFn\t{}", bimp)); descr.push(format!("add_function(eqFn := {})", bimp));
        compare(rec, w, &kf, &shadow, Some(bimp), &descr, "function-registered-again");
        rec.nontrivial_case(&descr.join("|"));
    } } }
}
