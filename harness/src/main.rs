mod proto;
mod interp;
mod enf;
mod c02;
mod c03;
mod mgmt;
mod c04;
mod ast;
mod c01;
mod c05;
mod c06;
mod c07;
mod c08;
mod c09;
mod c10;
mod c11;
mod c12;
mod c13;
mod c14;
mod c15;
mod c16;
mod c17;
mod c18;
mod c19;
mod lockscan;
mod c20;

use proto::Recorder;
use std::path::PathBuf;

fn main() {
    let args: Vec<String> = std::env::args().collect();
    if args.len() < 2 {
        eprintln!("usage: drive <Cxx|replay> [--tier quick|thorough] [--seed N] [--out DIR] [--budget K] [--ops FILE]");
        std::process::exit(2);
    }
    let prop = args[1].clone();
    if prop == "lockscan" {
        let scan = lockscan::scan_dir(args.get(2).map(|s| s.as_str()).unwrap_or("/repo/src"));
        let locking = scan.locking();
        println!("files={} problems={:?}", scan.files, scan.problems);
        println!("locking names: {:?}", locking);
        for (name, infos) in &scan.fns { for f in infos {
            for s in &f.sites { println!("site {}:{} fn {} mode {} lock {} scope {} calls {:?} inner {:?}", s.file, s.line, name, s.mode, s.lock, s.scope, s.calls.iter().map(|c| c.0.clone()).collect::<Vec<_>>(), s.inner_acqs); }
            let mut o = vec![]; scan.prog(f, &locking, 6, &mut o);
            if !o.is_empty() { println!("prog {} [{}] = {}", name, f.file, o.join(",")); }
        } }
        return;
    }
    if prop == "c20child" {
        std::process::exit(c20::child(&args[2]));
    }
    if prop == "c10child" {
        std::process::exit(enf::c10_child(&args[2], &args[3], &args[4], args[5].parse().unwrap()));
    }
    let mut tier = "quick".to_string();
    let mut seed: u64 = 1;
    let mut budget: u64 = 1;
    let mut ops_file: Option<String> = None;
    let mut out = PathBuf::from(format!("/verif/target/run/{}", prop));
    let mut i = 2;
    while i < args.len() {
        match args[i].as_str() {
            "--tier" => { tier = args[i + 1].clone(); i += 2; }
            "--seed" => { seed = args[i + 1].parse().unwrap_or(1); i += 2; }
            "--out" => { out = PathBuf::from(&args[i + 1]); i += 2; }
            "--budget" => { budget = args[i + 1].parse().unwrap_or(1); i += 2; }
            "--ops" => { ops_file = Some(args[i + 1].clone()); i += 2; }
            _ => { i += 1; }
        }
    }
    // silence panic messages of caught panics
    if std::env::var("VERIF_PANIC").is_ok() {
        std::panic::set_hook(Box::new(|i| { eprintln!("panic: {}", i); }));
    } else {
        std::panic::set_hook(Box::new(|_| {}));
    }
    let mut rec = Recorder::new(&out);
    rec.budget = budget;
    let mut w = interp::World::new();
    match prop.as_str() {
        "replay" => {
            let text = std::fs::read_to_string(ops_file.expect("--ops FILE")).unwrap();
            rec.begin();
            for line in text.lines() {
                if line.is_empty() || line.starts_with('#') { continue; }
                rec.exec(&mut w, line);
            }
        }
        "C01" => c01::run(&mut rec, &mut w, &tier, seed),
        "C05" => c05::run(&mut rec, &mut w, &tier, seed),
        "C06" => c06::run(&mut rec, &mut w, &tier, seed),
        "C07" => c07::run(&mut rec, &mut w, &tier, seed),
        "C08" => c08::run(&mut rec, &mut w, &tier, seed),
        "C17" => c17::run(&mut rec, &mut w, &tier, seed),
        "C09" => c09::run(&mut rec, &mut w, &tier, seed),
        "C10" => c10::run(&mut rec, &mut w, &tier, seed),
        "C12" => c12::run(&mut rec, &mut w, &tier, seed),
        "C14" => c14::run(&mut rec, &mut w, &tier, seed),
        "C13" => c13::run(&mut rec, &mut w, &tier, seed),
        "C11" => c11::run(&mut rec, &mut w, &tier, seed),
        "C18" => c18::run(&mut rec, &mut w, &tier, seed),
        "C19" => c19::run(&mut rec, &mut w, &tier, seed),
        "C20" => c20::run(&mut rec, &mut w, &tier, seed),
        "C15" => c15::run(&mut rec, &mut w, &tier, seed),
        "C16" => c16::run(&mut rec, &mut w, &tier, seed),
        "C02" => c02::run(&mut rec, &mut w, &tier, seed),
        "C03" => c03::run(&mut rec, &mut w, &tier, seed),
        "C04" => c04::run(&mut rec, &mut w, &tier, seed),
        _ => { eprintln!("unknown property {}", prop); std::process::exit(2); }
    }
    rec.finish();
}
