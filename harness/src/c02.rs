//! C02 — effect combiner: exhaustive enumeration of all effect sequences.
use crate::proto::*;
use casbin::{DefaultEffector, EffectKind, Effector};

pub const EXPRS: [&str; 4] = [
    "some(where (p_eft == allow))",
    "!some(where (p_eft == deny))",
    "some(where (p_eft == allow)) && !some(where (p_eft == deny))",
    "priority(p_eft) || deny",
];

fn declarative(expr: usize, seq: &[u8]) -> bool {
    // 0 allow, 1 indet, 2 deny — written independently of the Lean `combine`
    match expr {
        0 => seq.iter().any(|&e| e == 0),
        1 => !seq.iter().any(|&e| e == 2),
        2 => seq.iter().any(|&e| e == 0) && !seq.iter().any(|&e| e == 2),
        _ => seq.iter().find(|&&e| e != 1).map(|&e| e == 0).unwrap_or(false),
    }
}

/// run one stream on the real DefaultEffector; output = per push "<flag><next>"
pub fn run_impl(expr: &str, cap: usize, seq: &[u8]) -> String {
    let r = catch(|| {
        let mut st = DefaultEffector.new_stream(expr, cap);
        let mut out = String::new();
        for &e in seq {
            let k = match e { 0 => EffectKind::Allow, 1 => EffectKind::Indeterminate, _ => EffectKind::Deny };
            let flag = st.push_effect(k);
            out.push(if flag { '1' } else { '0' });
            if flag {
                out.push(if st.next() { 't' } else { 'f' });
            } else {
                // next() must panic (assert!(done)) while not complete
                let n = catch(|| st.next());
                out.push(match n { None => '-', Some(true) => 'T', Some(false) => 'F' });
            }
        }
        out
    });
    r.unwrap_or_else(|| "panic".to_string())
}

pub fn seq_of(s: &str) -> Vec<u8> {
    s.chars().map(|c| match c { 'a' => 0, 'i' => 1, _ => 2 }).collect()
}

fn seq_str(seq: &[u8]) -> String {
    seq.iter().map(|&e| match e { 0 => 'a', 1 => 'i', _ => 'd' }).collect()
}

fn check_seq(rec: &mut Recorder, w: &mut crate::interp::World, xi: usize, seq: &[u8], sample: bool) {
    let n = seq.len();
    rec.begin();
    let op = format!("eff.run\t{}\t{}\t{}", xi, n, seq_str(seq));
    let out = rec.exec(w, &op);
    rec.count(&format!("expr{}", xi));
    // --- the property evaluated directly on the implementation ---
    if out == "panic" {
        rec.fail("panic", format!("stream panicked on expr {} seq {}", xi, seq_str(seq)));
        return;
    }
    let b = out.as_bytes();
    let want = declarative(xi, seq);
    // (1) complete after the announced number of effects, with the declarative verdict
    let last_flag = b[2 * (n - 1)];
    let last_next = b[2 * (n - 1) + 1];
    if last_flag != b'1' {
        rec.fail("not-done-at-cap", format!("expr {} seq {}: not complete after cap pushes", xi, seq_str(seq)));
    } else if (last_next == b't') != want {
        rec.fail("wrong-verdict", format!("expr {} seq {}: got {} want {}", xi, seq_str(seq), last_next as char, want));
    }
    // (2) whenever completion is signalled at i < n-1, every continuation has that verdict:
    //     the verdict at the first signal must equal the declarative result of THIS full sequence
    //     (in the exhaustive part all continuations are enumerated).
    let mut early = false;
    for i in 0..n {
        if b[2 * i] == b'1' {
            if i + 1 < n { early = true; }
            if (b[2 * i + 1] == b't') != want {
                rec.fail("early-signal-unstable", format!("expr {} seq {}: signalled at {} with {} but declarative result is {}", xi, seq_str(seq), i, b[2*i+1] as char, want));
            }
            break;
        } else if b[2 * i + 1] != b'-' {
            rec.fail("next-before-done", format!("expr {} seq {}: next() readable at {} while not complete", xi, seq_str(seq), i));
        }
    }
    if early { rec.count("early_completion"); } else { rec.count("completed_at_cap"); }
    if seq.iter().any(|&e| e != 1) { rec.nontrivial_case(&op); }
    if sample { rec.sample(format!("{} -> {}", op.replace('\t', " "), out)); }
}

pub fn run(rec: &mut Recorder, w: &mut crate::interp::World, tier: &str, seed: u64) {
    let maxn = if tier == "thorough" { 12 } else { 8 };
    rec.exhaustive = true;
    rec.notes.insert("max_len".into(), maxn.into());
    for (xi, _expr) in EXPRS.iter().enumerate() {
        for n in 1..=maxn {
            let total = 3usize.pow(n as u32);
            let mut seq = vec![0u8; n];
            for code in 0..total {
                let mut c = code;
                for i in 0..n {
                    seq[i] = (c % 3) as u8;
                    c /= 3;
                }
                check_seq(rec, w, xi, &seq, code % 7 == 3 && n >= 3 && n <= 5 && code < 60);
            }
        }
    }
    // beyond the exhaustive bound: seeded-random streams of up to 48 effects, mostly indeterminate with the
    // decisive effect late (capacities far above the enumerated ones)
    let mut rng = Rng::new(seed);
    let n_rand = (if tier == "thorough" { 20000 } else { 2500 }) * rec.budget as usize;
    for (xi, _expr) in EXPRS.iter().enumerate() {
        for _ in 0..n_rand {
            let n = maxn + 1 + rng.below(48 - maxn);
            let p_ind = 60 + rng.below(40);
            // every third stream is instead a long run of one decisive effect (many matching rules of one kind), the other
            // two effects rare, so that a dozen and more allows (or denies) in a row occur without the opposite effect
            let dom = rng.below(3);
            let seq: Vec<u8> = if dom == 0 {
                (0..n).map(|_| if rng.below(100) < p_ind { 1 } else if rng.chance(1, 2) { 0 } else { 2 }).collect()
            } else {
                let main = if dom == 1 { 0u8 } else { 2u8 };
                let p_other = rng.below(8);
                (0..n).map(|_| if rng.below(100) < p_other { rng.below(3) as u8 } else { main }).collect()
            };
            check_seq(rec, w, xi, &seq, false);
            rec.count(if dom == 0 { "random-long-stream" } else { "random-long-run-of-one-effect" });
        }
    }
    // ---- the same combination law observed through the enforcer: one request, one stored rule per effect of the sequence (a
    //      matching rule marked allow or deny, or a rule that does not match), every sequence up to length 4 - the empty one
    //      included, where the matcher is evaluated once on empty policy fields and its answer is the only effect ----
    {
        use crate::mgmt::{new_enforcer, sv, sval, ModelDef, E_ALLOW, E_BOTH, E_DENY, E_PRIO};
        for (xi, etext) in [E_ALLOW, E_DENY, E_BOTH, E_PRIO].iter().enumerate() {
            let m = ModelDef {
                r: vec![("r".into(), sv(&["sub"]))], p: vec![("p".into(), sv(&["sub", "tag", "eft"]))], g: vec![],
                e: vec![("e".into(), (*etext).into())],
                m: vec![("m".into(), "(cmp eq (r 0) (p 0))".into(), "r.sub == p.sub".into())], tbl: vec![],
            };
            for n in 0..=4usize {
                for code in 0..3usize.pow(n as u32) {
                    let mut c = code; let mut seq = vec![];
                    for _ in 0..n { seq.push((c % 3) as u8); c /= 3; }
                    let lines: Vec<Vec<String>> = seq.iter().enumerate().map(|(i, e)| match e {
                        0 => sv(&["p", "p", "alice", &format!("t{}", i), "allow"]),
                        1 => sv(&["p", "p", "zed", &format!("t{}", i), if i % 2 == 0 { "allow" } else { "deny" }]),
                        _ => sv(&["p", "p", "alice", &format!("t{}", i), "deny"]) }).collect();
                    rec.begin();
                    if new_enforcer(rec, w, &m, "memory", &lines, "", false) != "ok" { rec.count("new:failed"); continue; }
                    let out = rec.exec(w, &format!("e.enfs\t{}", sval("alice")));
                    // no stored rule: the matcher on empty fields does not match, a single indeterminate effect
                    let want = if n == 0 { declarative(xi, &[1]) } else { declarative(xi, &seq) };
                    if out != (if want { "t" } else { "f" }) { rec.fail("wrong-verdict", format!("through the enforcer: expr {} rules {:?}: got {} want {}", xi, lines, out, want)); }
                    rec.count("through-enforcer");
                    rec.nontrivial_case(&format!("enf|{}|{}", xi, seq_str(&seq)));
                }
            }
        }
    }
    // malformed stream: unsupported expressions and cap = 0 must panic on both sides
    for (expr, cap) in [("some(where (p.eft == allow))", 1usize), ("", 1), ("priority(p_eft)||deny", 2), (EXPRS[0], 0), (EXPRS[3], 0)] {
        rec.begin();
        rec.exec(w, &format!("eff.raw\t{}\t{}\ta", esc(expr), cap));
        rec.count("malformed");
    }
}
