//! C06 — enforcement is total and fails closed on request-controlled input.
use crate::ast::*;
use crate::c01::*;
use crate::interp::World;
use crate::mgmt::*;
use crate::proto::*;

const ALPHA: [&str; 15] = ["a", "é", "中", "😀", "*", "/", ":", "{", "}", "?", ".", "\"", "'", " ", ""];

/// every string of length <= n over the alphabet (the empty symbol contributes nothing)
fn corpus(n: usize) -> Vec<String> {
    let mut out = vec![String::new()];
    let mut cur = vec![String::new()];
    for _ in 0..n {
        let mut next = vec![];
        for s in &cur { for a in ALPHA.iter().filter(|a| !a.is_empty()) { next.push(format!("{}{}", s, a)); } }
        out.extend(next.iter().cloned());
        cur = next;
    }
    out
}

/// policy-side patterns of the documented grammar, per built-in
fn patterns(f: &str) -> Vec<&'static str> {
    match f {
        "keyMatch" | "keyGet" => vec!["/a/*", "a*", "*", "/é/*", "aé*", "/a/b", "中*", ""],
        "keyMatch2" | "keyGet2" => vec!["/a/:id", "/:x/*", "/a/*", "/:a/:b", "/é/:n", "/a"],
        "keyMatch3" | "keyGet3" | "keyMatch4" | "keyMatch5" => vec!["/a/{id}", "/{x}/*", "/a/*", "/{a}/{a}", "/é/{n}", "/a"],
        "regexMatch" => vec!["^a.*$", "^/a/[^/]+$", "^.*$", "^é$"],
        _ => vec![],
    }
}

pub const FUNCS: [&str; 11] = ["keyMatch", "keyGet", "keyMatch2", "keyGet2", "keyMatch3", "keyGet3", "keyMatch4", "keyMatch5", "regexMatch", "keyGet2v", "keyGet3v"];

pub fn run(rec: &mut Recorder, w: &mut World, tier: &str, seed: u64) {
    let mut rng = Rng::new(seed);
    let n = if tier == "thorough" { 3 } else { 2 };
    let keys = corpus(n);
    rec.notes.insert("corpus_strings".into(), keys.len().into());
    rec.notes.insert("corpus_max_len".into(), n.into());
    // seeded-random longer strings
    let mut longer: Vec<String> = vec![];
    for _ in 0..(if tier == "thorough" { 3000 } else { 300 }) {
        let l = 4 + rng.below(12);
        longer.push((0..l).map(|_| *rng.pick(&ALPHA)).collect::<Vec<_>>().join(""));
    }
    // ---- (a) the exported matcher functions, driven directly ----
    rec.begin();
    for f in ["keyMatch", "keyGet", "keyMatch2", "keyGet2", "keyMatch3", "keyGet3", "keyMatch4", "keyMatch5", "regexMatch"] {
        for pat in patterns(f) {
            for k in keys.iter().chain(longer.iter()) {
                let op = if f == "keyGet2" || f == "keyGet3" { format!("km\t{}\t{}\t{}\t{}", f, esc(k), esc(pat), esc(*rng.pick(&["id", "x", "a", "n", "zz"]))) }
                         else { format!("km\t{}\t{}\t{}", f, esc(k), esc(pat)) };
                let out = rec.exec(w, &op);
                rec.count(&format!("fn:{}", f));
                if out == "panic" { rec.fail("matcher-panicked", format!("{}({:?}, {:?}) panicked", f, k, pat)); }
                if out == "true" || (out.starts_with("s:") && out.len() > 2) { rec.count("fn-result:match"); rec.nontrivial_case(&op); } else { rec.count("fn-result:no-match"); }
            }
        }
    }
    rec.sample(format!("km keyMatch {:?} {:?}", keys[17 % keys.len()], "/é/*"));
    // ---- (b) enforce over the corpus, against each model kind using a built-in ----
    let r = |i| Ex::R(i);
    let p = |i| Ex::P(i);
    let ks = kinds();
    let mut cfgs: Vec<(String, Kind, Vec<Vec<String>>)> = vec![];
    for f in ["keyMatch", "keyMatch2", "keyMatch3", "keyMatch4", "keyMatch5", "regexMatch"] {
        let mut k = ks[0].clone();
        k.m = and(and(eq(r(0), p(0)), Ex::Call2(f.to_string(), b(r(1)), b(p(1)))), eq(r(2), p(2)));
        let rules: Vec<Vec<String>> = patterns(f).iter().map(|pt| sv(&["a", pt, "a"])).collect();
        cfgs.push((f.to_string(), k, rules));
    }
    {   // keyGet family inside comparisons
        let mut k = ks[0].clone();
        k.m = and(eq(Ex::Call2("keyGet".into(), b(r(1)), b(p(1))), r(2)), or(eq(Ex::Call3("keyGet2".into(), b(r(1)), b(p(1)), b(Ex::LitS("id".into()))), r(0)), eq(r(0), p(0))));
        cfgs.push(("keyGet".into(), k, vec![sv(&["a", "/a/*", "a"]), sv(&["a", "/a/:id", "a"])]));
    }
    // rbac / domains / abac / eval kinds with their own matchers
    for name in ["rbac", "domains", "abac", "eval", "superuser"] {
        let k = ks.iter().find(|k| k.name == name).unwrap().clone();
        let rules: Vec<Vec<String>> = (0..3).map(|_| gen_rule(&mut rng, &k, false)).collect();
        cfgs.push((name.to_string(), k, rules));
    }
    // every configuration twice: through `enforce`, and through `enforce_with_context("2")` on a copy of the sections under
    // r2/p2/e2/m2 (rule-in-policy texts name the request tokens, so the eval kind stays with `enforce`)
    for (name, k, rules, ctx) in cfgs.iter().flat_map(|(n, k, r)| [(n, k, r, false), (n, k, r, true)]) {
        if ctx && k.name == "eval" { continue; }
        let mut m = model_of(k, E_ALLOW, false, "", false);
        if ctx { let b2 = model_of(k, E_ALLOW, false, "2", false); m.r.extend(b2.r); m.p.extend(b2.p); m.e.extend(b2.e); m.m.extend(b2.m); }
        let links = gen_links(&mut rng, k);
        rec.begin();
        let lines = lines_of(if ctx { "p2" } else { "p" }, rules, &k.g, &links);
        if new_enforcer(rec, w, &m, "memory", &lines, "", false) != "ok" { rec.fail("new-failed", format!("cannot build enforcer for {}", name)); continue; }
        let name = &format!("{}{}", name, if ctx { "+context" } else { "" });
        let nr = k.rt.len();
        // requests of the right arity: one corpus value in one position, fixed values elsewhere
        let mut batch: Vec<Vec<String>> = vec![];
        let flush = |rec: &mut Recorder, w: &mut World, batch: &mut Vec<Vec<String>>, expect_err: bool| {
            if batch.is_empty() { return; }
            let out = rec.exec(w, &if ctx { format!("e.enfcs\t2\t{}", enc_reqs(batch)) } else { format!("e.enfs\t{}", enc_reqs(batch)) });
            if out.contains('p') { let i = out.find('p').unwrap(); rec.fail("enforce-panicked", format!("[{}] enforce panicked on request {:?}", name, batch[i])); }
            if expect_err && out.bytes().any(|c| c != b'e') { let i = out.bytes().position(|c| c != b'e').unwrap(); rec.fail("bad-request-not-error", format!("[{}] request {:?} must be an error, got {}", name, batch[i], &out[i..i + 1])); }
            rec.count_n("enforce:granted", out.bytes().filter(|&c| c == b't').count() as u64);
            rec.count_n("enforce:denied", out.bytes().filter(|&c| c == b'f').count() as u64);
            rec.count_n("enforce:error", out.bytes().filter(|&c| c == b'e').count() as u64);
            batch.clear();
        };
        for key in keys.iter().chain(longer.iter().take(100)) {
            for pos in 0..nr {
                let mut req: Vec<String> = (0..nr).map(|_| sval("a")).collect();
                req[pos] = sval(key);
                batch.push(req);
                if batch.len() >= 64 { flush(rec, w, &mut batch, false); }
            }
        }
        flush(rec, w, &mut batch, false);
        // wrong arities 0..6: always an error, never a grant
        for ar in 0..=6usize {
            if ar == nr { continue; }
            for key in keys.iter().step_by(7).take(40) {
                batch.push((0..ar).map(|_| sval(key)).collect());
            }
        }
        flush(rec, w, &mut batch, true);
        rec.count(&format!("model:{}", name));
        rec.nontrivial_case(name);
    }
    // ---- (b') pattern role names (implementation only: a role-matching function on the role manager): a request value is
    //      only ever the *key* of the matching function, never its pattern — whatever it contains, no panic; and with the prefix
    //      matcher a subject is granted exactly when it is the role, the pattern node, or begins with the pattern's prefix ----
    for mf in ["keyMatch", "keyMatch2"] {
        let k = ks.iter().find(|k| k.name == "rbac").unwrap().clone();
        let m = model_of(&k, E_ALLOW, false, "", false);
        rec.begin();
        m.emit(rec, w);
        if rec.exec_impl_only(w, "e.new\tmemory\t-\t\t-") != "ok" { rec.fail("new-failed", "pattern-role stream: cannot build the enforcer".into()); continue; }
        rec.exec_impl_only(w, &format!("e.rolematch\t{}\t-", mf));
        let pat = if mf == "keyMatch" { "u_*" } else { "/u/:id" };
        rec.exec_impl_only(w, &MOp::Add("g".into(), "g".into(), sv(&[pat, "admin"])).line());
        rec.exec_impl_only(w, &MOp::Add("p".into(), "p".into(), sv(&["admin", "data1", "read"])).line());
        let subs: Vec<&String> = keys.iter().chain(longer.iter().take(100)).collect();
        for chunk in subs.chunks(64) {
            let reqs: Vec<Vec<String>> = chunk.iter().map(|x| vec![sval(x), sval("data1"), sval("read")]).collect();
            let out = rec.exec_impl_only(w, &format!("e.enfs\t{}", enc_reqs(&reqs)));
            if out.contains('p') { let i = out.find('p').unwrap(); rec.fail("enforce-panicked", format!("[pattern roles, {}] enforce panicked on subject {:?}", mf, chunk[i])); }
            if mf == "keyMatch" {
                for (i, c) in out.bytes().enumerate() {
                    let x = chunk[i].as_str();
                    let want = x == "admin" || x == pat || x.starts_with("u_");
                    if (c == b't') != want { rec.fail("pattern-role-decision", format!("[pattern roles, keyMatch, g {} admin] subject {:?} decided {} but it {} the pattern", pat, x, c as char, if want { "matches" } else { "does not match" })); }
                }
            }
            rec.count_n("enforce:pattern-role-requests", chunk.len() as u64);
        }
        rec.nontrivial_case(&format!("pattern-roles|{}", mf));
    }
    // ---- (c) malformed stored rule / failing matcher: an error, never a grant ----
    for (what, rules, m_override) in [
        ("malformed-rule-first", vec![sv(&["a", "a"]), sv(&["a", "a", "a"])], None),
        ("malformed-rule-only-long", vec![sv(&["a", "a", "a", "a"])], None),
        // not the first stored rule: a well-formed rule that matches nothing comes first, so evaluation reaches it
        ("malformed-short-rule-second", vec![sv(&["zz", "zz", "zz"]), sv(&["a", "a"])], None),
        ("malformed-long-rule-second", vec![sv(&["zz", "zz", "zz"]), sv(&["a", "a", "a", "a"])], None),
        ("malformed-long-rule-last-of-three", vec![sv(&["zz", "zz", "zz"]), sv(&["yy", "yy", "yy"]), sv(&["a", "a", "a", "a"])], None),
        ("failing-matcher", vec![sv(&["a", "a", "a"])], Some(and(Ex::Cmp("gt", b(Ex::Attr(b(r(0)), "Age".into())), b(Ex::LitI(1))), eq(r(1), p(1))))),
        ("unknown-function", vec![sv(&["a", "a", "a"])], Some(Ex::Call2("noSuchFn".into(), b(r(0)), b(p(0))))),
        ("non-boolean-matcher", vec![sv(&["a", "a", "a"])], Some(r(0))),
    ] {
        let mut k = ks[0].clone();
        if let Some(m) = m_override { k.m = m; }
        let m = model_of(&k, E_ALLOW, false, "", false);
        rec.begin();
        new_enforcer(rec, w, &m, "memory", &lines_of("p", &rules, &k.g, &[]), "", false);
        let reqs: Vec<Vec<String>> = keys.iter().step_by(3).take(60).map(|x| vec![sval("a"), sval(x), sval("a")]).chain(std::iter::once(vec![sval("a"), sval("a"), sval("a")])).collect();
        let out = rec.exec(w, &format!("e.enfs\t{}", enc_reqs(&reqs)));
        if out.bytes().any(|c| c != b'e') { rec.fail("reached-failure-not-error", format!("[{}] every request reaches the failing rule/matcher and must be an error: {}", what, out)); }
        rec.count(&format!("failclosed:{}", what));
        rec.nontrivial_case(what);
    }

    // ---- (c') the same through a second section set and enforce_with_context: the malformed rule is stored after well-formed ones ----
    for (what, rules) in [
        ("ctx-malformed-short-rule-second", vec![sv(&["zz", "zz", "zz"]), sv(&["a", "a"])]),
        ("ctx-malformed-long-rule-second", vec![sv(&["zz", "zz", "zz"]), sv(&["a", "a", "a", "a"])]),
        ("ctx-malformed-long-rule-last-of-three", vec![sv(&["zz", "zz", "zz"]), sv(&["yy", "yy", "yy"]), sv(&["a", "a", "a", "a"])]),
        ("ctx-malformed-rule-first", vec![sv(&["a", "a"]), sv(&["a", "a", "a"])]),
    ] {
        let k = ks[0].clone();
        let mut m = model_of(&k, E_ALLOW, false, "", false);
        let b2 = model_of(&k, E_ALLOW, false, "2", false);
        m.r.extend(b2.r); m.p.extend(b2.p); m.e.extend(b2.e); m.m.extend(b2.m);
        rec.begin();
        new_enforcer(rec, w, &m, "memory", &lines_of("p2", &rules, &k.g, &[]), "", false);
        let reqs: Vec<Vec<String>> = keys.iter().step_by(7).take(20).map(|x| vec![sval("a"), sval(x), sval("a")]).chain(std::iter::once(vec![sval("a"), sval("a"), sval("a")])).collect();
        let out = rec.exec(w, &format!("e.enfcs\t2\t{}", enc_reqs(&reqs)));
        if out.bytes().any(|c| c != b'e') { rec.fail("reached-failure-not-error", format!("[{}] every context request reaches the malformed rule and must be an error: {}", what, out)); }
        rec.count(&format!("failclosed:{}", what));
        rec.nontrivial_case(what);
    }
    // ---- (d) a CachedEnforcer with enforcement switched off and on again: what was answered (and granted) while it was off
    //      must not be served afterwards - a wrong-arity request is an error again ----
    for twice in [false, true] {
        let k = ks[0].clone();
        let m = model_of(&k, E_ALLOW, false, "", false);
        rec.begin();
        rec.exec(w, "e.cached\ttrue");
        new_enforcer(rec, w, &m, "memory", &lines_of("p", &[sv(&["a", "a", "a"])], &k.g, &[]), "", false);
        let reqs: Vec<Vec<String>> = vec![vec![sval("a"), sval("a"), sval("a")], vec![sval("a"), sval("a")], vec![sval("a"), sval("a"), sval("a"), sval("a")], vec![], vec![sval("zz"), sval("zz"), sval("zz")], vec![sval("a")]];
        let base = if twice { rec.exec(w, &format!("e.enfs\t{}", enc_reqs(&reqs))) } else { "teeefe".to_string() };
        rec.exec(w, "e.auto\tenforce\tfalse");
        let off = rec.exec(w, &format!("e.enfs\t{}", enc_reqs(&reqs)));
        rec.exec(w, "e.auto\tenforce\ttrue");
        let on = rec.exec(w, &format!("e.enfs\t{}", enc_reqs(&reqs)));
        rec.exec(w, "e.cached\tfalse");
        if on != "teeefe" || base != "teeefe" { rec.fail("granted-after-switching-back-on", format!("cached enforcer: before {} ; while enforcement was off {} ; switched on again {} (wrong-arity requests must be errors, the unmatched one denied)", base, off, on)); }
        rec.count("failclosed:cached-enable-enforce-window");
        rec.nontrivial_case(&format!("cached-window|{}", twice));
    }
}
