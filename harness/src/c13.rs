//! C13 — RBAC queries agree with enforcement.
use crate::c01::*;
use crate::c03::RefLinks;
use crate::c05::dom_f;
use crate::interp::World;
use crate::mgmt::*;
use crate::proto::*;
use std::collections::BTreeSet;

const NAMES: [&str; 7] = ["alice", "bob", "carol", "admin", "staff", "lead", "root"];
const OBJS: [&str; 2] = ["d1", "d2"];
const ACTS: [&str; 2] = ["read", "write"];

struct St { p: Vec<Vec<String>>, g: Vec<Vec<String>> }

fn reach_set(refl: &RefLinks, u: &str, d: &Option<String>) -> BTreeSet<String> {
    // names reachable from u by >= 1 link
    let mut out = BTreeSet::new();
    for n in NAMES.iter() {
        if *n != u { if refl.dist(u, n, d).is_some() { out.insert(n.to_string()); } }
        else {
            // u itself only through a cycle
            for r in refl.roles(u, d) { if r == u || refl.dist(&r, u, d).is_some() { out.insert(u.to_string()); } }
        }
    }
    out
}

fn check_state(rec: &mut Recorder, w: &mut World, st: &St, with_dom: bool, dm: &[String; 2], descr: &str) {
    let doms: Vec<Option<String>> = if with_dom { vec![Some(dm[0].clone()), Some(dm[1].clone())] } else { vec![None] };
    let mut refl = RefLinks::default();
    for r in &st.g { let d = if with_dom { Some(r[2].clone()) } else { None }; refl.add(&r[0], &r[1], &d); }
    for d in &doms {
        let df = dom_f(d);
        for u in NAMES.iter() {
            // implicit roles = reachable roles
            let ir = rec.exec(w, &format!("e.iroles\t{}\t{}", u, df));
            let want: Vec<String> = reach_set(&refl, u, d).into_iter().collect();
            if ir != enc_list(&want) { rec.fail("implicit-roles-not-reachability", format!("{}: implicit roles of {} in {:?} = {} but reachable = {:?}", descr, u, d, ir, want)); }
            // implicit permissions = rules held by the user or those roles
            let ip = rec.exec(w, &format!("e.iperms\t{}\t{}", u, df));
            let mut holders: BTreeSet<String> = reach_set(&refl, u, d); holders.insert(u.to_string());
            // (the domain is matched the way every filtered read of the crate matches a value: the empty string stands for
            //  "any value", so for the tenant named "" the rules of the holders in every tenant are listed)
            let mut wantp: Vec<Vec<String>> = st.p.iter().filter(|r| holders.contains(&r[0]) && (!with_dom || d.as_deref() == Some("") || Some(r[1].clone()) == *d)).cloned().collect();
            wantp.sort_by_key(|r| enc_list(r)); wantp.dedup();
            let mut gotp = dec_lists(&ip); gotp.sort_by_key(|r| enc_list(r)); gotp.dedup();
            if gotp != wantp { rec.fail("implicit-permissions-wrong", format!("{}: implicit permissions of {} in {:?} = {} but the rules held by it or its roles are {:?}", descr, u, d, ip, wantp)); }
            // direct listings are inverse views
            let roles = dec_list(&rec.exec(w, &format!("e.roles\t{}\t{}", u, df)));
            for r in &roles {
                let users = dec_list(&rec.exec(w, &format!("e.users\t{}\t{}", esc(r), df)));
                if !users.contains(&u.to_string()) { rec.fail("roles-users-not-inverse", format!("{}: {} has role {} in {:?} but is not among its users {:?}", descr, u, r, d, users)); }
                let hr = rec.exec(w, &format!("e.hasrole\t{}\t{}\t{}", u, esc(r), df));
                if hr != "true" { rec.fail("has-role-disagrees", format!("{}: has_role_for_user({}, {}) = {}", descr, u, r, hr)); }
            }
            // ... and only those: an inherited role (or the name itself) is not a direct role
            for r in NAMES.iter() {
                if roles.contains(&r.to_string()) { continue; }
                let hr = rec.exec(w, &format!("e.hasrole\t{}\t{}\t{}", u, r, df));
                if hr != "false" { rec.fail("has-role-disagrees", format!("{}: has_role_for_user({}, {}) = {} but the direct roles of {} in {:?} are {:?}", descr, u, r, hr, u, d, roles)); }
            }
            if roles != refl.roles(u, d) { rec.fail("roles-listing-wrong", format!("{}: roles of {} = {:?} but links say {:?}", descr, u, roles, refl.roles(u, d))); }
            // enforce(u, o, a) <=> [*, o, a] among the implicit permissions
            let mut reqs = vec![];
            for o in OBJS { for a in ACTS { reqs.push(if with_dom { sv(&[u, d.as_ref().unwrap(), o, a]) } else { sv(&[u, o, a]) }); } }
            let dec = rec.exec(w, &format!("e.enfs\t{}", reqs_field(&reqs)));
            for (i, rq) in reqs.iter().enumerate() {
                let tail = &rq[1..];
                let in_perms = gotp.iter().any(|r| r[1..] == *tail);
                let granted = &dec[i..i + 1] == "t";
                if granted != in_perms { rec.fail("enforce-vs-implicit-permissions", format!("{}: enforce({:?}) = {} but membership in implicit permissions = {}", descr, rq, granted, in_perms)); }
            }
            rec.count_n("checked:user-domain", 1);
        }
    }
    // implicit users for a permission (no domain variant of this API)
    if !with_dom {
        let role_names: BTreeSet<String> = st.g.iter().map(|r| r[1].clone()).collect();
        for o in OBJS { for a in ACTS {
            let got = rec.exec(w, &format!("e.iusers\t{}", enc_list(&sv(&[o, a]))));
            let mut cands: BTreeSet<String> = st.p.iter().map(|r| r[0].clone()).collect();
            for r in &st.g { cands.insert(r[0].clone()); }
            let mut want: Vec<String> = vec![];
            for c in cands { if role_names.contains(&c) { continue; }
                let mut holders = reach_set(&refl, &c, &None); holders.insert(c.clone());
                if st.p.iter().any(|r| holders.contains(&r[0]) && r[1] == o && r[2] == a) { want.push(c); } }
            if got != enc_list(&want) { rec.fail("implicit-users-wrong", format!("{}: implicit users for ({}, {}) = {} but the users granted it are {:?}", descr, o, a, got, want)); }
        } }
    }
}

pub fn run(rec: &mut Recorder, w: &mut World, tier: &str, seed: u64) {
    let mut rng = Rng::new(seed);
    let ks = kinds();
    let n_hist = (if tier == "thorough" { 700 } else { 70 }) * rec.budget as usize;
    for with_dom in [false, true] {
        let k = ks.iter().find(|k| k.name == if with_dom { "domains" } else { "rbac" }).unwrap().clone();
        let m = model_of(&k, E_ALLOW, false, "", false);
        for hi in 0..n_hist {
            rec.begin();
            new_enforcer(rec, w, &m, *rng.pick(&["memory", "null"]), &[], "", false);
            let mut st = St { p: vec![], g: vec![] };
            let mut descr = vec![];
            let len = 3 + rng.below(if tier == "thorough" { 40 } else { 22 });
            // the two tenants: usually t1 / t2; every fourth history one of them is the empty string, every eighth the name
            // the role manager uses internally for "no domain"
            let dm: [String; 2] = if hi % 4 == 3 { ["".to_string(), "t2".to_string()] } else if hi % 8 == 5 { ["t1".to_string(), "DEFAULT".to_string()] } else { ["t1".to_string(), "t2".to_string()] };
            if with_dom { rec.count(&format!("tenants:{:?}", dm)); }
            let dm2 = dm.clone();
            let dom = move |rng: &mut Rng| rng.pick(&dm2[..]).to_string();
            for step in 0..len {
                let pr = |rng: &mut Rng| { let mut r = vec![rng.pick(&NAMES).to_string()]; if with_dom { r.push(dom(rng)); } r.push(rng.pick(&OBJS).to_string()); r.push(rng.pick(&ACTS).to_string()); r };
                let gr = |rng: &mut Rng| { let mut r = vec![rng.pick(&NAMES).to_string(), rng.pick(&NAMES).to_string()]; if with_dom { r.push(dom(rng)); } r };
                let op = match rng.below(14) {
                    0..=3 => MOp::Add("p".into(), "p".into(), pr(&mut rng)),
                    4..=8 => {
                        // shapes: chains, diamonds, cycles arise from random links over 7 names; sometimes a deliberate chain
                        if rng.chance(1, 5) { let a = rng.below(7); let l = 2 + rng.below(5); let d = dom(&mut rng);
                            let rules: Vec<Vec<String>> = (0..l).map(|i| { let mut r = sv(&[NAMES[(a + i) % 7], NAMES[(a + i + 1) % 7]]); if with_dom { r.push(d.clone()); } r }).collect();
                            MOp::AddM("g".into(), "g".into(), rules) }
                        // one batch naming the same assignment twice; an assignment with an extra field beside the plain one
                        else if rng.chance(1, 6) { let r = gr(&mut rng); rec.count("shape:batch-with-repeated-rule"); MOp::AddM("g".into(), "g".into(), vec![r.clone(), r]) }
                        else if rng.chance(1, 6) { let r = if st.g.is_empty() || rng.chance(1, 2) { gr(&mut rng) } else { let mut x = rng.pick(&st.g).clone(); x.truncate(if with_dom { 3 } else { 2 }); x };
                            let mut l = r.clone(); l.push(rng.pick(&["x", "y"]).to_string()); rec.count("shape:rule-longer-than-definition");
                            if rng.chance(1, 2) { MOp::AddM("g".into(), "g".into(), vec![r, l]) } else { MOp::Add("g".into(), "g".into(), l) } }
                        else { MOp::Add("g".into(), "g".into(), gr(&mut rng)) } }
                    9 => MOp::Rm("g".into(), "g".into(), if st.g.is_empty() { gr(&mut rng) } else { rng.pick(&st.g).clone() }),
                    10 => MOp::Rm("p".into(), "p".into(), if st.p.is_empty() { pr(&mut rng) } else { rng.pick(&st.p).clone() }),
                    11 => MOp::DelUser(rng.pick(&NAMES).to_string()),
                    12 => MOp::DelRole(rng.pick(&NAMES).to_string()),
                    _ => if with_dom { MOp::Rm("p".into(), "p".into(), pr(&mut rng)) } else { MOp::DelPerm(sv(&[*rng.pick(&OBJS), *rng.pick(&ACTS)])) },
                };
                let out = rec.exec(w, &op.line());
                descr.push(op.line().replace('\t', " "));
                rec.count(&format!("op:{}", op.kind()));
                // track the stored rules from the crate's own listing (C04 checks that listing)
                let pol = rec.exec(w, "e.pol");
                let parts: Vec<&str> = pol.split(' ').collect();
                st.p = dec_lists(parts[0]).into_iter().map(|r| r[2..].to_vec()).collect();
                st.g = dec_lists(parts[1]).into_iter().map(|r| r[2..].to_vec()).collect();
                // post-conditions of the delete helpers
                match &op {
                    MOp::DelUser(n) => {
                        if st.g.iter().any(|r| r[0] == *n) || st.p.iter().any(|r| r[0] == *n) { rec.fail("delete-user-left-rules", format!("{} -> {}: a rule still names {} in the subject position: p {:?} g {:?}", descr.join(" ; "), out, n, st.p, st.g)); }
                        for d in if with_dom { vec![Some(dm[0].clone()), Some(dm[1].clone())] } else { vec![None] } {
                            let r = rec.exec(w, &format!("e.roles\t{}\t{}", n, dom_f(&d)));
                            if r != "-" { rec.fail("delete-user-left-links", format!("{}: {} still has roles {} in {:?}", descr.join(" ; "), n, r, d)); }
                        }
                        let mut reqs = vec![];
                        for o in OBJS { for a in ACTS { if with_dom { for t in dm.iter() { reqs.push(sv(&[n, t, o, a])); } } else { reqs.push(sv(&[n, o, a])); } } }
                        let dec = rec.exec(w, &format!("e.enfs\t{}", reqs_field(&reqs)));
                        if dec.contains('t') { rec.fail("delete-user-left-grants", format!("{}: {} is still granted something: {}", descr.join(" ; "), n, dec)); }
                    }
                    MOp::DelRole(n) => {
                        if st.g.iter().any(|r| r[1] == *n) || st.p.iter().any(|r| r[0] == *n) { rec.fail("delete-role-left-rules", format!("{} -> {}: a rule still names role {}: p {:?} g {:?}", descr.join(" ; "), out, n, st.p, st.g)); }
                        for d in if with_dom { vec![Some(dm[0].clone()), Some(dm[1].clone())] } else { vec![None] } {
                            let r = rec.exec(w, &format!("e.users\t{}\t{}", n, dom_f(&d)));
                            if r != "-" { rec.fail("delete-role-left-links", format!("{}: role {} still has users {} in {:?}", descr.join(" ; "), n, r, d)); }
                        }
                    }
                    MOp::DelPerm(pm) => {
                        if st.p.iter().any(|r| r[1..] == pm[..]) { rec.fail("delete-permission-left-rules", format!("{}: permission {:?} still stored: {:?}", descr.join(" ; "), pm, st.p)); }
                    }
                    _ => {}
                }
                if step % 3 == 2 || step + 1 == len { check_state(rec, w, &st, with_dom, &dm, &descr.join(" ; ")); }
            }
            rec.nontrivial_case(&format!("{}|{}", with_dom, descr.join("|")));
            rec.count(if with_dom { "config:domains" } else { "config:rbac" });
            if hi == 0 { rec.sample(format!("domains={} {}", with_dom, descr.iter().take(8).cloned().collect::<Vec<_>>().join(" ; "))); }
        }
    }

    // ---- directed histories with the switches and components moved: the queries and enforcement must agree again at every
    //      point where the graph has been rebuilt from the stored rules ----
    let k = ks.iter().find(|k| k.name == "rbac").unwrap().clone();
    let m = model_of(&k, E_ALLOW, false, "", false);
    let dm = ["t1".to_string(), "t2".to_string()];
    let n_dir = (if tier == "thorough" { 40 } else { 8 }) * rec.budget as usize;
    let read_state = |rec: &mut Recorder, w: &mut World| -> St {
        let pol = rec.exec(w, "e.pol"); let parts: Vec<&str> = pol.split(' ').collect();
        St { p: dec_lists(parts[0]).into_iter().map(|r| r[2..].to_vec()).collect(), g: dec_lists(parts[1]).into_iter().map(|r| r[2..].to_vec()).collect() }
    };
    for it in 0..n_dir { for variant in 0..4usize {
        rec.begin();
        new_enforcer(rec, w, &m, "memory", &[], "", false);
        let mut descr: Vec<String> = vec![];
        let mut run = |rec: &mut Recorder, w: &mut World, descr: &mut Vec<String>, line: String| { let o = rec.exec(w, &line); descr.push(format!("{} -> {}", line.replace('\t', " "), o)); };
        // a small hierarchy with permissions on the roles
        let u = NAMES[rng.below(3)]; let r1 = NAMES[3 + rng.below(2)]; let r2 = NAMES[5 + rng.below(2)];
        run(rec, w, &mut descr, MOp::Add("g".into(), "g".into(), sv(&[u, r1])).line());
        if it % 2 == 1 { run(rec, w, &mut descr, MOp::Add("g".into(), "g".into(), sv(&[r1, r2])).line()); }
        run(rec, w, &mut descr, MOp::Add("p".into(), "p".into(), sv(&[r1, "d1", "read"])).line());
        run(rec, w, &mut descr, MOp::Add("p".into(), "p".into(), sv(&[r2, "d2", "write"])).line());
        let st = read_state(rec, w); check_state(rec, w, &st, false, &dm, &descr.join(" ; "));
        match variant {
            0 => { // everything cleared, a permission of the role stored again
                run(rec, w, &mut descr, "e.clear".into());
                run(rec, w, &mut descr, MOp::Add("p".into(), "p".into(), sv(&[r1, "d1", "read"])).line());
            }
            1 => { // a reload from a store without grouping rules
                run(rec, w, &mut descr, format!("e.setadapter\tmemory\t{}\t", enc_lists(&[sv(&["p", "p", r1, "d1", "read"]), sv(&["p", "p", u, "d2", "read"])])));
            }
            2 => { // links built by hand: the last grouping rules go while building is off, then an explicit rebuild
                run(rec, w, &mut descr, "e.auto\tbuild\tfalse".into());
                let st0 = read_state(rec, w);
                for g in &st0.g { run(rec, w, &mut descr, MOp::Rm("g".into(), "g".into(), g.clone()).line()); }
                run(rec, w, &mut descr, "e.build".into());
            }
            _ => { // another role manager installed while building is off, then role changes and explicit rebuilds
                run(rec, w, &mut descr, "e.auto\tbuild\tfalse".into());
                run(rec, w, &mut descr, "e.setrm".into());
                run(rec, w, &mut descr, "e.build".into());
                let st1 = read_state(rec, w); check_state(rec, w, &st1, false, &dm, &descr.join(" ; "));
                run(rec, w, &mut descr, MOp::Rm("g".into(), "g".into(), sv(&[u, r1])).line());
                let other = NAMES[(rng.below(3) + 1) % 3];
                run(rec, w, &mut descr, MOp::Add("g".into(), "g".into(), sv(&[other, r1])).line());
                run(rec, w, &mut descr, "e.build".into());
                if it % 2 == 0 { let st2 = read_state(rec, w); check_state(rec, w, &st2, false, &dm, &descr.join(" ; "));
                    run(rec, w, &mut descr, "e.auto\tbuild\ttrue".into());
                    run(rec, w, &mut descr, MOp::Add("g".into(), "g".into(), sv(&[u, r2])).line()); }
            }
        }
        let st = read_state(rec, w); check_state(rec, w, &st, false, &dm, &descr.join(" ; "));
        rec.count(&format!("directed:switches-and-components:{}", variant));
        rec.nontrivial_case(&format!("directed|{}|{}", variant, descr.join("|")));
    } }
}
