//! C16 — model and policy text formats round-trip; arbitrary text never panics.
use crate::c01::*;
use crate::interp::World;
use crate::mgmt::*;
use crate::proto::*;

pub fn dump_model(m: &casbin::DefaultModel) -> String {
    use casbin::Model;
    let mut parts = vec![];
    for sec in ["r", "p", "e", "m", "g"] {
        if let Some(map) = m.get_model().get(sec) {
            for (k, a) in map { parts.push(format!("{}.{}={}{{{}}}", sec, esc(k), esc(&a.value), enc_list(&a.tokens))); }
        }
    }
    parts.join(";")
}

/// canonical text of a model definition
fn canonical(m: &ModelDef) -> Vec<(String, Vec<(String, String)>)> {
    let g: Vec<(String, String)> = m.g.iter().map(|(k, n)| (k.clone(), vec!["_"; *n].join(", "))).collect();
    let mut v = vec![
        ("request_definition".to_string(), m.r.iter().map(|(k, t)| (k.clone(), t.join(", "))).collect()),
        ("policy_definition".to_string(), m.p.iter().map(|(k, t)| (k.clone(), t.join(", "))).collect()),
    ];
    if !g.is_empty() { v.push(("role_definition".to_string(), g)); }
    v.push(("policy_effect".to_string(), m.e.clone()));
    v.push(("matchers".to_string(), m.m.iter().map(|(k, _, t)| (k.clone(), t.clone())).collect()));
    v
}

/// one layout variant drawn from the layout grammar
fn layout(rng: &mut Rng, secs: &[(String, Vec<(String, String)>)], wild: bool) -> String {
    let mut s = String::new();
    let junk = |rng: &mut Rng, s: &mut String| { match rng.below(6) { 0 => s.push('\n'), 1 => s.push_str(*rng.pick(&["# a comment line\n", "# r = x, y  # not a definition\n", "#\n"])), 2 => s.push_str("; another comment\n"), 3 => s.push_str("   \n"), _ => {} } };
    if wild { junk(rng, &mut s); }
    // set when the previous section ended in a backslash: the header must follow at once (it is then read by the continuation
    // loop, which takes it for the next section - the `multi1` shape of examples/testini.ini)
    let mut glued = false;
    for (si, (name, kvs)) in secs.iter().enumerate() {
        if wild && !glued { junk(rng, &mut s); }
        glued = false;
        let pad = if wild { " ".repeat(rng.below(3)) } else { String::new() };
        s.push_str(&format!("{}[{}]{}\n", pad, name, if wild && rng.chance(1, 3) { "  " } else { "" }));
        for (ki, (k, v)) in kvs.iter().enumerate() {
            if wild { junk(rng, &mut s); }
            let eq = if wild { *rng.pick(&["=", " = ", "=  ", "  ="]) } else { " = " };
            let lead = if wild { " ".repeat(rng.below(3)) } else { String::new() };
            let mut val = v.clone();
            // continuation splits of matcher values at operator boundaries
            if wild && name == "matchers" && rng.chance(1, 2) {
                let pieces: Vec<&str> = val.split(" && ").collect();
                if pieces.len() > 1 { val = pieces.join(" && \\\n      "); }
            }
            let trailing = if wild && name != "matchers" && name != "policy_effect" && rng.chance(1, 3) { *rng.pick(&["   # trailing comment", " # see issue #12", "  ## note", " #", " # a = b, c # d"]) } else { "" };
            // a value may end in a backslash when a comment or blank line follows: that line ends the value (a comment or blank
            // line is never part of a continued value — the reference implementation's reading, pinned by examples/testini.ini)
            let dangling = if wild && trailing.is_empty() && rng.chance(1, 6) { *rng.pick(&[" \\\n# a comment right after a trailing backslash\n", " \\\n\n", "\\\n; c\n", " \\\n   \n#\n"]) } else { "\n" };
            // ... and the last value of a section may end in a backslash right before the next header
            let dangling = if wild && trailing.is_empty() && dangling == "\n" && ki + 1 == kvs.len() && si + 1 < secs.len() && rng.chance(1, 5) { glued = true; *rng.pick(&[" \\\n", "\\\n", "  \\  \n"]) } else { dangling };
            s.push_str(&format!("{}{}{}{}{}{}", lead, k, eq, val, trailing, dangling));
        }
    }
    if wild && rng.chance(1, 2) { s.push_str("\n# end\n"); }
    if wild && rng.chance(1, 3) { s.pop(); } // no final newline
    s
}

pub fn run(rec: &mut Recorder, w: &mut World, tier: &str, seed: u64) {
    let mut rng = Rng::new(seed);
    let mut ks = kinds();
    // matchers whose text contains token-like substrings outside any token ("r_" / "p_" inside a literal,
    // an attribute named like a token) - what un-escaping must leave alone
    {
        let mut k = ks[0].clone(); k.name = "acl-tokenlike-literals";
        k.m = crate::ast::or(k.m.clone(), crate::ast::or(crate::ast::eq(crate::ast::Ex::R(0), crate::ast::Ex::LitS("super_admin".into())), crate::ast::eq(crate::ast::Ex::R(1), crate::ast::Ex::LitS("p_sub r_obj".into()))));
        ks.push(k);
    }
    let n_layout = (if tier == "thorough" { 60 } else { 8 }) * rec.budget as usize;
    // ---- (a) layout independence of model definitions ----
    for k in &ks { for (ename, eff) in EFFECTS.iter() {
        let mut m = model_of(k, eff, *ename != "allow-override", "", false);
        // sometimes with suffixed copies, so that r2/p2/e2/m2 are exercised
        if rng.chance(1, 3) { let b = model_of(k, eff, true, "2", rng.chance(1, 2)); m.r.extend(b.r); m.p.extend(b.p); m.e.extend(b.e); m.m.extend(b.m); }
        let secs = canonical(&m);
        rec.begin();
        let canon_text = layout(&mut rng, &secs, false);
        let canon = rec.exec(w, &format!("cfg.parse\t{}", esc(&canon_text)));
        if canon == "err" || canon == "panic" { rec.fail("canonical-model-rejected", format!("{} {}: canonical text rejected: {}", k.name, ename, canon)); continue; }
        for li in 0..n_layout {
            let t = layout(&mut rng, &secs, true);
            let out = rec.exec(w, &format!("cfg.parse\t{}", esc(&t)));
            // matcher values may differ by the blanks a continuation removes: compare modulo spaces
            let norm = |s: &str| s.replace("%20", "").replace(' ', "");
            if norm(&out) != norm(&canon) { rec.fail("layout-changes-definitions", format!("{} {}: layout variant parses to {} instead of {} :: text {:?}", k.name, ename, out, canon, t)); }
            rec.count("layout:variant");
            rec.nontrivial_case(&t);
            if li == 0 && k.name == "rbac" && *ename == "priority" { rec.sample(t.clone()); }
        }
        // to_text output parses back to the same definitions
        let rt = rec.exec_impl_only(w, &format!("cfg.roundtrip\t{}", esc(&canon_text)));
        if rt != "same" { rec.fail("to-text-roundtrip", format!("{} {}: to_text does not round-trip: {}", k.name, ename, rt)); }
        rec.count("to_text:roundtrip");
    } }
    // and decisions: original text vs to_text output, on enforcers
    // (covered by the definitions being identical; the decision run is C01's)
    // ---- (b) policy lines: spacing, optional quoting, comment lines ----
    let vals = ["alice", "a,b", "x, y", "d é", "中", "r.sub == 1", "k=v"];
    let n_csv = (if tier == "thorough" { 20000 } else { 2500 }) * rec.budget as usize;
    rec.begin();
    for i in 0..n_csv {
        let n = 1 + rng.below(4);
        let fields: Vec<&str> = (0..n).map(|_| *rng.pick(&vals)).collect();
        let mut line = String::new();
        for (j, f) in fields.iter().enumerate() {
            if j > 0 { line.push(','); }
            line.push_str(&" ".repeat(rng.below(3)));
            let quote = f.contains(',') || rng.chance(1, 4);
            if quote { line.push('"'); line.push_str(f); line.push('"'); } else { line.push_str(f); }
            line.push_str(&" ".repeat(rng.below(3)));
        }
        let out = rec.exec(w, &format!("csv.parse\t{}", esc(&line)));
        let mut want = vec!["p".to_string()]; want.extend(fields.iter().map(|s| s.to_string()));
        if out != enc_list(&want) { rec.fail("csv-layout-changes-rule", format!("line {:?} parsed to {} instead of {:?}", line, out, want)); }
        rec.count("csv:variant");
        if fields.iter().any(|f| f.contains(',')) { rec.nontrivial_case(&line); }
        if i < 2 { rec.sample(format!("csv {:?} -> {}", line, out)); }
    }
    // ---- (b') what the text adapters write parses back to the same rules: save_policy then load_policy through the string
    //      adapter (separator ", ") and the file adapter (separator ","), values with commas followed or not by a blank ----
    let wvals = ["alice", "a,b", "x, y", "d é", "中", "data1,data2", "k=v", ",", "a, b,c"];
    let m_acl = model_of(&ks[0], E_ALLOW, false, "", false);
    let n_wr = (if tier == "thorough" { 1500 } else { 150 }) * rec.budget as usize;
    for _ in 0..n_wr {
        let kind = *rng.pick(&["string", "file"]);
        rec.begin();
        new_enforcer(rec, w, &m_acl, kind, &[], "", false);
        rec.exec(w, "e.auto\tsave\tfalse");
        for _ in 0..1 + rng.below(4) { let r: Vec<String> = (0..3).map(|_| rng.pick(&wvals).to_string()).collect(); rec.exec(w, &MOp::Add("p".into(), "p".into(), r).line()); }
        let before = rec.exec(w, "e.pol");
        let (s1, l1) = (rec.exec(w, "e.save"), rec.exec(w, "e.load"));
        let after = rec.exec(w, "e.pol");
        if s1 != "ok" || l1 != "ok" || before != after { rec.fail("written-text-does-not-parse-back", format!("[{} adapter] save -> {}, load -> {}: {} became {}", kind, s1, l1, before, after)); }
        rec.count(&format!("write-parse:{}", kind));
        rec.nontrivial_case(&format!("wr|{}|{}", kind, before));
    }
    // ---- (c) totality: grammar-mutated and noise texts; never a panic ----
    let n_noise = (if tier == "thorough" { 20000 } else { 2000 }) * rec.budget as usize;
    let base = layout(&mut rng, &canonical(&model_of(&ks[4], E_ALLOW, false, "", false)), false);
    rec.begin();
    for _ in 0..n_noise {
        let mut t: Vec<char> = base.chars().collect();
        for _ in 0..1 + rng.below(4) {
            let pos = rng.below(t.len().max(1));
            match rng.below(8) {
                0 => { if !t.is_empty() { t.remove(pos.min(t.len() - 1)); } }
                1 => t.insert(pos, *rng.pick(&['[', ']', '=', '\\', '#', ';', '"', '\n', ' ', ',', '\0', 'é', '(', ')'])),
                2 => { let l = t.len(); t.truncate(pos.min(l)); }
                3 => t.insert(pos, '\\'),
                4 => { let extra: Vec<char> = "\n[x]\n=\n".chars().collect(); for (i, c) in extra.iter().enumerate() { t.insert((pos + i).min(t.len()), *c); } }
                5 => { if pos < t.len() { t[pos] = '\n'; } }
                6 => t.insert(pos, '='),
                _ => t.push('\\'),
            }
        }
        let text: String = t.into_iter().collect();
        let out = rec.exec(w, &format!("cfg.parse\t{}", esc(&text)));
        if out == "panic" { rec.fail("config-parser-panicked", format!("from_str panicked on {:?}", text)); }
        rec.count(if out == "err" { "noise:rejected" } else { "noise:parsed" });
    }
    // csv noise
    for _ in 0..n_noise {
        let l = rng.below(12);
        let line: String = (0..l).map(|_| *rng.pick(&['a', ',', '"', ' ', '#', 'é', '\t', '\\', '\'', '=', '\0'])).collect();
        let out = rec.exec(w, &format!("csv.parse\t{}", esc(&line)));
        if out == "panic" { rec.fail("csv-parser-panicked", format!("loading the line {:?} panicked", line)); }
        rec.count("noise:csv");
    }
    // byte noise (invalid UTF-8 included) through the file entry points — implementation only
    for _ in 0..(n_noise / 10) {
        let l = rng.below(40);
        let bytes: Vec<u8> = (0..l).map(|_| if rng.chance(1, 3) { (rng.next() % 256) as u8 } else { *rng.pick(&[b'p', b',', b' ', b'\n', b'[', b']', b'=', b'g', b'"', 0xC3, 0xA9, b'#']) }).collect();
        let hex: String = bytes.iter().map(|b| format!("{:02x}", b)).collect();
        let out = rec.exec_impl_only(w, &format!("cfg.file\t{}", hex));
        if out == "panic" { rec.fail("byte-noise-panicked", format!("bytes {} made a loader panic", hex)); }
        rec.count("noise:bytes");
    }
    let _ = sv(&[]);
}
