//! Shared pieces for the management-history properties (C04, C05, C09, C10, C14, C11):
//! model set-up, op alphabet, an independent ordered-set reference.
use crate::interp::World;
use crate::proto::*;
use std::collections::BTreeMap;

pub fn sv(xs: &[&str]) -> Vec<String> { xs.iter().map(|s| s.to_string()).collect() }

/// escape an atom inside an s-expression / request value (also spaces, parens, '=', '&', ':')
pub fn esc2(s: &str) -> String {
    let mut o = String::new();
    for c in esc(s).chars() {
        match c {
            ' ' => o.push_str("%20"), '(' => o.push_str("%28"), ')' => o.push_str("%29"),
            '=' => o.push_str("%3D"), '&' => o.push_str("%26"), c => o.push(c),
        }
    }
    o
}

pub fn sval(s: &str) -> String { format!("s:{}", esc2(s)) }

/// a model definition: the text for the crate and the s-expression for the Lean model
#[derive(Clone)]
pub struct ModelDef {
    pub r: Vec<(String, Vec<String>)>,
    pub p: Vec<(String, Vec<String>)>,
    pub g: Vec<(String, usize)>,
    pub e: Vec<(String, String)>,
    pub m: Vec<(String, String, String)>, // key, sexpr, text
    pub tbl: Vec<(String, String)>,       // rule text -> sexpr
}

impl ModelDef {
    pub fn emit(&self, rec: &mut Recorder, w: &mut World) {
        rec.exec(w, "m.reset");
        for (k, t) in &self.r { rec.exec(w, &format!("m.r\t{}\t{}", k, enc_list(t))); }
        for (k, t) in &self.p { rec.exec(w, &format!("m.p\t{}\t{}", k, enc_list(t))); }
        for (k, n) in &self.g { rec.exec(w, &format!("m.g\t{}\t{}", k, n)); }
        for (k, t) in &self.e { rec.exec(w, &format!("m.e\t{}\t{}", k, esc(t))); }
        for (k, sx, t) in &self.m { rec.exec(w, &format!("m.m\t{}\t{}\t{}", k, sx, esc(t))); }
        for (t, sx) in &self.tbl { rec.exec(w, &format!("m.tbl\t{}\t{}", esc(t), sx)); }
    }
}

pub const E_ALLOW: &str = "some(where (p.eft == allow))";
pub const E_DENY: &str = "!some(where (p.eft == deny))";
pub const E_BOTH: &str = "some(where (p.eft == allow)) && !some(where (p.eft == deny))";
pub const E_PRIO: &str = "priority(p.eft) || deny";

/// priority RBAC model with two policy types and two role definitions: order is observable
pub fn priority_rbac() -> ModelDef {
    ModelDef {
        r: vec![("r".into(), sv(&["sub", "obj", "act"]))],
        p: vec![("p".into(), sv(&["sub", "obj", "act", "eft"])), ("p2".into(), sv(&["sub", "obj", "act", "eft"]))],
        g: vec![("g".into(), 2), ("g2".into(), 2)],
        e: vec![("e".into(), E_PRIO.into())],
        m: vec![("m".into(),
            "(and (and (g2 g (r 0) (p 0)) (cmp eq (r 1) (p 1))) (cmp eq (r 2) (p 2)))".into(),
            "g(r.sub, p.sub) && r.obj == p.obj && r.act == p.act".into())],
        tbl: vec![],
    }
}

#[derive(Clone, Debug)]
pub enum MOp {
    Add(String, String, Vec<String>),
    AddM(String, String, Vec<Vec<String>>),
    Rm(String, String, Vec<String>),
    RmM(String, String, Vec<Vec<String>>),
    RmF(String, String, usize, Vec<String>),
    DelUser(String),
    DelRole(String),
    DelPerm(Vec<String>),
    Clear,
}

impl MOp {
    pub fn line(&self) -> String {
        match self {
            MOp::Add(s, p, r) => format!("e.add\t{}\t{}\t{}", s, p, enc_list(r)),
            MOp::AddM(s, p, rs) => format!("e.addm\t{}\t{}\t{}", s, p, enc_lists(rs)),
            MOp::Rm(s, p, r) => format!("e.rm\t{}\t{}\t{}", s, p, enc_list(r)),
            MOp::RmM(s, p, rs) => format!("e.rmm\t{}\t{}\t{}", s, p, enc_lists(rs)),
            MOp::RmF(s, p, i, v) => format!("e.rmf\t{}\t{}\t{}\t{}", s, p, i, enc_list(v)),
            MOp::DelUser(n) => format!("e.deluser\t{}", esc(n)),
            MOp::DelRole(n) => format!("e.delrole\t{}", esc(n)),
            MOp::DelPerm(p) => format!("e.delperm\t{}", enc_list(p)),
            MOp::Clear => "e.clear".to_string(),
        }
    }
    pub fn kind(&self) -> &'static str {
        match self { MOp::Add(..) => "add", MOp::AddM(..) => "addm", MOp::Rm(..) => "rm", MOp::RmM(..) => "rmm",
            MOp::RmF(..) => "rmf", MOp::DelUser(_) => "deluser", MOp::DelRole(_) => "delrole", MOp::DelPerm(_) => "delperm", MOp::Clear => "clear" }
    }
}

/// the specification: one insertion-ordered set per (section, policy type)
#[derive(Clone, Default, PartialEq, Debug)]
pub struct RefStore {
    pub sets: BTreeMap<(String, String), Vec<Vec<String>>>,
    pub order: Vec<(String, String)>,
}

fn fmatch(idx: usize, vals: &[String], rule: &[String]) -> bool {
    vals.iter().enumerate().all(|(i, v)| v.is_empty() || rule.get(idx + i) == Some(v))
}

impl RefStore {
    pub fn new(defs: &[(&str, &str)]) -> Self {
        let mut s = RefStore::default();
        for (a, b) in defs { s.sets.insert((a.to_string(), b.to_string()), vec![]); s.order.push((a.to_string(), b.to_string())); }
        s
    }
    pub fn of_model(m: &ModelDef) -> Self {
        let mut s = RefStore::default();
        for (k, _) in &m.p { s.sets.insert(("p".into(), k.clone()), vec![]); s.order.push(("p".into(), k.clone())); }
        for (k, _) in &m.g { s.sets.insert(("g".into(), k.clone()), vec![]); s.order.push(("g".into(), k.clone())); }
        s
    }
    pub fn add(&mut self, s: &str, p: &str, r: &[String]) -> bool {
        match self.sets.get_mut(&(s.to_string(), p.to_string())) {
            None => false,
            Some(v) => if v.iter().any(|x| x == r) { false } else { v.push(r.to_vec()); true }
        }
    }
    pub fn addm(&mut self, s: &str, p: &str, rs: &[Vec<String>]) -> bool {
        match self.sets.get_mut(&(s.to_string(), p.to_string())) {
            None => false,
            Some(v) => {
                if rs.iter().any(|r| v.contains(r)) { return false; }
                for r in rs { if !v.contains(r) { v.push(r.clone()); } }
                true
            }
        }
    }
    pub fn rm(&mut self, s: &str, p: &str, r: &[String]) -> bool {
        match self.sets.get_mut(&(s.to_string(), p.to_string())) {
            None => false,
            Some(v) => { let n = v.len(); v.retain(|x| x != r); v.len() != n }
        }
    }
    pub fn rmm(&mut self, s: &str, p: &str, rs: &[Vec<String>]) -> bool {
        match self.sets.get_mut(&(s.to_string(), p.to_string())) {
            None => false,
            Some(v) => {
                if rs.iter().any(|r| !v.contains(r)) { return false; }
                v.retain(|x| !rs.contains(x));
                true
            }
        }
    }
    pub fn rmf(&mut self, s: &str, p: &str, idx: usize, vals: &[String]) -> bool {
        if vals.is_empty() { return false; }
        match self.sets.get_mut(&(s.to_string(), p.to_string())) {
            None => false,
            Some(v) => { let n = v.len(); v.retain(|x| !fmatch(idx, vals, x)); v.len() != n }
        }
    }
    pub fn clear(&mut self) { for v in self.sets.values_mut() { v.clear(); } }
    /// apply an op (ignoring adapters); returns the `changed` flag the spec prescribes
    pub fn apply(&mut self, op: &MOp) -> bool {
        match op {
            MOp::Add(s, p, r) => self.add(s, p, r),
            MOp::AddM(s, p, rs) => self.addm(s, p, rs),
            MOp::Rm(s, p, r) => self.rm(s, p, r),
            MOp::RmM(s, p, rs) => self.rmm(s, p, rs),
            MOp::RmF(s, p, i, v) => self.rmf(s, p, *i, v),
            MOp::DelUser(n) => { let a = self.rmf("g", "g", 0, &[n.clone()]); let b = self.rmf("p", "p", 0, &[n.clone()]); a || b }
            MOp::DelRole(n) => { let a = self.rmf("g", "g", 1, &[n.clone()]); let b = self.rmf("p", "p", 0, &[n.clone()]); a || b }
            MOp::DelPerm(p) => self.rmf("p", "p", 1, p),
            MOp::Clear => { self.clear(); true }
        }
    }
    /// `e.pol` rendering: all p rules then all g rules, each prefixed with [sec, ptype]
    pub fn render(&self) -> String {
        let mut p = vec![]; let mut g = vec![];
        for (s, k) in &self.order {
            for r in &self.sets[&(s.clone(), k.clone())] {
                let mut x = vec![s.clone(), k.clone()]; x.extend(r.iter().cloned());
                if s == "p" { p.push(x) } else { g.push(x) }
            }
        }
        format!("{} {}", enc_lists(&p), enc_lists(&g))
    }
    pub fn getf(&self, s: &str, p: &str, idx: usize, vals: &[String]) -> Vec<Vec<String>> {
        self.sets.get(&(s.to_string(), p.to_string())).map(|v| v.iter().filter(|r| fmatch(idx, vals, r)).cloned().collect()).unwrap_or_default()
    }
}

/// universe of the priority RBAC histories
pub struct Universe {
    pub p_rules: Vec<Vec<String>>,
    pub g_rules: Vec<Vec<String>>,
    pub reqs: Vec<Vec<String>>,
}

pub fn small_universe() -> Universe {
    let mut p_rules = vec![];
    for s in ["alice", "admin"] { for o in ["d1", "d2"] { for e in ["allow", "deny"] { p_rules.push(sv(&[s, o, "read", e])); } } }
    let g_rules = vec![sv(&["alice", "admin"]), sv(&["admin", "alice"]), sv(&["bob", "admin"]), sv(&["alice", "bob"])];
    let mut reqs = vec![];
    for s in ["alice", "admin", "bob"] { for o in ["d1", "d2"] { reqs.push(sv(&[s, o, "read"])); } }
    Universe { p_rules, g_rules, reqs }
}

/// rules of the second role definition use their own names: all role definitions share one
/// role manager (known finding F3), which is C19's subject, not that of the store properties
pub fn g2_names(r: &[String]) -> Vec<String> { r.iter().map(|x| format!("res_{}", x)).collect() }

/// a concrete alphabet over the small universe (used for exhaustive enumeration)
pub fn alphabet(u: &Universe) -> Vec<MOp> {
    let mut a = vec![];
    for r in &u.p_rules[..4] { a.push(MOp::Add("p".into(), "p".into(), r.clone())); }
    for r in &u.p_rules[..3] { a.push(MOp::Rm("p".into(), "p".into(), r.clone())); }
    for r in &u.g_rules[..3] { a.push(MOp::Add("g".into(), "g".into(), r.clone())); }
    for r in &u.g_rules[..2] { a.push(MOp::Rm("g".into(), "g".into(), r.clone())); }
    a.push(MOp::Add("g".into(), "g2".into(), g2_names(&u.g_rules[0])));
    a.push(MOp::Add("p".into(), "p2".into(), u.p_rules[0].clone()));
    a.push(MOp::AddM("p".into(), "p".into(), vec![u.p_rules[1].clone(), u.p_rules[4].clone()]));
    a.push(MOp::AddM("p".into(), "p".into(), vec![u.p_rules[5].clone(), u.p_rules[5].clone()])); // internal duplicate
    a.push(MOp::AddM("g".into(), "g".into(), vec![u.g_rules[0].clone(), u.g_rules[2].clone()]));
    a.push(MOp::RmM("p".into(), "p".into(), vec![u.p_rules[0].clone(), u.p_rules[1].clone()]));
    a.push(MOp::RmM("g".into(), "g".into(), vec![u.g_rules[0].clone(), u.g_rules[2].clone()]));
    a.push(MOp::RmF("p".into(), "p".into(), 0, sv(&["alice"])));
    a.push(MOp::RmF("p".into(), "p".into(), 1, sv(&["d1", "", "deny"])));
    a.push(MOp::RmF("p".into(), "p".into(), 0, sv(&["", "d2"])));
    a.push(MOp::RmF("g".into(), "g".into(), 1, sv(&["admin"])));
    a.push(MOp::RmF("p".into(), "p".into(), 0, vec![]));
    a.push(MOp::DelUser("alice".into()));
    a.push(MOp::DelRole("admin".into()));
    a.push(MOp::DelPerm(sv(&["d1", "read"])));
    a.push(MOp::Clear);
    a.push(MOp::Add("p".into(), "p9".into(), u.p_rules[0].clone())); // unknown policy type
    a.push(MOp::AddM("p".into(), "p9".into(), vec![u.p_rules[0].clone()]));
    a.push(MOp::RmM("g".into(), "g9".into(), vec![u.g_rules[0].clone()]));
    a
}

/// a random op over the universe (structured: mostly valid, with duplicates / absents / out-of-range)
pub fn random_op(rng: &mut Rng, u: &Universe) -> MOp {
    let pt = if rng.chance(1, 6) { "p2" } else { "p" }.to_string();
    let gt = if rng.chance(1, 6) { "g2" } else { "g" }.to_string();
    let pr = |rng: &mut Rng| u.p_rules[rng.below(u.p_rules.len())].clone();
    let is_g2 = gt == "g2";
    let gr = |rng: &mut Rng| { let r = u.g_rules[rng.below(u.g_rules.len())].clone(); if is_g2 { g2_names(&r) } else { r } };
    match rng.below(20) {
        0..=4 => MOp::Add("p".into(), pt, pr(rng)),
        5 | 6 => MOp::Rm("p".into(), pt, pr(rng)),
        7 | 8 => MOp::Add("g".into(), gt, gr(rng)),
        9 => MOp::Rm("g".into(), gt, gr(rng)),
        10 => { let n = rng.below(4); MOp::AddM("p".into(), pt, (0..n).map(|_| pr(rng)).collect()) }
        11 => { let n = rng.below(3); MOp::AddM("g".into(), gt, (0..n).map(|_| gr(rng)).collect()) }
        12 => { let n = rng.below(3); MOp::RmM("p".into(), pt, (0..n).map(|_| pr(rng)).collect()) }
        13 => { let n = 1 + rng.below(2); MOp::RmM("g".into(), gt, (0..n).map(|_| gr(rng)).collect()) }
        14 | 15 => {
            let idx = rng.below(3);
            let n = rng.below(4);
            let r = pr(rng);
            let vals: Vec<String> = (0..n).map(|i| if rng.chance(1, 3) { String::new() } else if rng.chance(1, 8) { "zzz".into() } else { r.get(idx + i).cloned().unwrap_or_else(|| "oor".into()) }).collect();
            MOp::RmF("p".into(), pt, idx, vals)
        }
        16 => { let r = gr(rng); let idx = rng.below(2); MOp::RmF("g".into(), gt, idx, vec![r[idx].clone()]) }
        17 => match rng.below(3) { 0 => MOp::DelUser(rng.pick(&["alice", "bob", "admin"]).to_string()), 1 => MOp::DelRole(rng.pick(&["admin", "bob"]).to_string()), _ => MOp::DelPerm(sv(&[*rng.pick(&["d1", "d2"]), "read"])) },
        18 => if rng.chance(1, 3) { MOp::Clear } else { MOp::Add("p".into(), "p".into(), pr(rng)) },
        _ => MOp::Add("p".into(), "p9".into(), pr(rng)),
    }
}

/// fault plan that rejects every adapter call an API call makes (delete_user / delete_role make two)
pub fn fault_plan(op: &MOp, f: &str) -> String {
    match op { MOp::DelUser(_) | MOp::DelRole(_) => format!("{},{}", f, f), _ => f.to_string() }
}

pub fn reqs_field(reqs: &[Vec<String>]) -> String {
    reqs.iter().map(|r| if r.is_empty() { "|".to_string() } else { r.iter().map(|v| sval(v)).collect::<Vec<_>>().join(",") }).collect::<Vec<_>>().join(";")
}

/// memory adapter content field from prefixed lines
pub fn new_enforcer(rec: &mut Recorder, w: &mut World, m: &ModelDef, kind: &str, lines: &[Vec<String>], text: &str, watcher: bool) -> String {
    m.emit(rec, w);
    rec.exec(w, &format!("e.new\t{}\t{}\t{}\t{}", kind, enc_lists(lines), esc(text), if watcher { "w" } else { "-" }))
}
