//! C12 — filtered loading loads exactly the matching subset.
use crate::ast::*;
use crate::interp::World;
use crate::mgmt::*;
use crate::proto::*;

fn model() -> ModelDef {
    let r = |i| Ex::R(i); let p = |i| Ex::P(i);
    let rt = sv(&["sub", "dom", "obj"]);
    let m = and(and(Ex::G3("g".into(), b(r(0)), b(p(0)), b(r(1))), eq(r(1), p(1))), eq(r(2), p(2)));
    ModelDef { r: vec![("r".into(), rt.clone())], p: vec![("p".into(), rt.clone()), ("p2".into(), sv(&["sub", "obj"]))],
        g: vec![("g".into(), 3), ("g2".into(), 2)], e: vec![("e".into(), E_ALLOW.into())],
        m: vec![("m".into(), m.sexpr(), m.text("r", &rt, "p", &rt))], tbl: vec![] }
}

fn keeps(f: &[String], rule: &[String]) -> bool {
    f.iter().enumerate().all(|(i, v)| v.is_empty() || rule.get(i) == Some(v))
}

/// text / memory content for the three adapters
pub fn content(kind: &str, lines: &[Vec<String>], rng: &mut Rng) -> (Vec<Vec<String>>, String) {
    if kind == "memory" { return (lines.to_vec(), String::new()); }
    let mut text = String::new();
    for (i, l) in lines.iter().enumerate() {
        if i == 1 && rng.chance(1, 3) { text.push_str("# a comment line\n\n"); }
        let sep = if kind == "file" { "," } else { ", " };
        // a value with a comma is written quoted, as save_policy writes it
        let q: Vec<String> = l[2..].iter().map(|v| if v.contains(',') { format!("\"{}\"", v) } else { v.clone() }).collect();
        text.push_str(&format!("{}, {}\n", l[1], q.join(sep)));
    }
    if rng.chance(1, 4) { text.push_str("# trailing comment\n"); }
    (vec![], text)
}

pub fn run(rec: &mut Recorder, w: &mut World, tier: &str, seed: u64) {
    let mut rng = Rng::new(seed);
    let m = model();
    let n_store = (if tier == "thorough" { 600 } else { 60 }) * rec.budget as usize;
    let vals = ["a", "b", "a,x"];
    // every filter: per leading field empty / a / b / a value that matches nothing; lengths 0..arity
    let mut filters: Vec<Vec<String>> = vec![vec![]];
    for len in 1..=3 {
        let mut idx = vec![0usize; len];
        loop {
            filters.push(idx.iter().map(|&i| ["", "a", "b", "zz", "a,x"][i].to_string()).collect());
            let mut k = len; let mut done = false;
            loop { if k == 0 { done = true; break; } k -= 1; idx[k] += 1; if idx[k] < 5 { break; } idx[k] = 0; }
            if done { break; }
        }
    }
    rec.notes.insert("filters".into(), filters.len().into());
    for si in 0..n_store {
        let mut lines: Vec<Vec<String>> = vec![];
        for _ in 0..rng.below(5) { let l = sv(&["p", "p", *rng.pick(&vals), *rng.pick(&vals), *rng.pick(&vals)]); if !lines.contains(&l) { lines.push(l); } }
        for _ in 0..rng.below(3) { let l = sv(&["p", "p2", *rng.pick(&vals), *rng.pick(&vals)]); if !lines.contains(&l) { lines.push(l); } }
        for _ in 0..rng.below(4) { let l = sv(&["g", "g", *rng.pick(&vals), *rng.pick(&["b", "c"]), *rng.pick(&vals)]); if !lines.contains(&l) { lines.push(l); } }
        for _ in 0..rng.below(3) { let l = sv(&["g", "g2", *rng.pick(&vals), *rng.pick(&["c", "d"])]); if !lines.contains(&l) { lines.push(l); } }
        // keep p lines before g lines (the order save_policy writes)
        lines.sort_by_key(|l| (l[0].clone() != "p") as u8);
        for kind in ["file", "memory", "string"] {
            // a slice of the filter space per store (all of it over the whole run)
            let picks: Vec<(Vec<String>, Vec<String>)> = (0..(if tier == "thorough" { 24 } else { 8 })).map(|_| (rng.pick(&filters).clone(), rng.pick(&filters).clone())).collect();
            for (fp, fg) in picks {
                let (mem, text) = content(kind, &lines, &mut rng);
                rec.begin();
                new_enforcer(rec, w, &m, kind, &mem, &text, false);
                let full = rec.exec(w, "e.pol");
                let r = rec.exec(w, &format!("e.loadf\t{}\t{}", enc_list(&fp), enc_list(&fg)));
                let got = rec.exec(w, "e.pol");
                let flag = rec.exec(w, "e.filtered");
                // spec: the filter applied to the fully loaded policy
                let mut wp = vec![]; let mut wg = vec![]; let mut left_out = false;
                for l in &lines {
                    let f = if l[0] == "p" { &fp } else { &fg };
                    if keeps(f, &l[2..]) { if l[0] == "p" { wp.push(l.clone()) } else { wg.push(l.clone()) } } else { left_out = true; }
                }
                // get_all_policy groups by policy type in definition order
                let grp = |v: &Vec<Vec<String>>, order: [&str; 2]| -> Vec<Vec<String>> { let mut o = vec![]; for k in order { o.extend(v.iter().filter(|l| l[1] == k).cloned()); } o };
                let want = format!("{} {}", enc_lists(&grp(&wp, ["p", "p2"])), enc_lists(&grp(&wg, ["g", "g2"])));
                let descr = format!("[{}] store {:?} filter p={:?} g={:?}", kind, lines, fp, fg);
                if r != "ok" { rec.fail("filtered-load-failed", format!("{}: load_filtered_policy -> {}", descr, r)); }
                else if got != want { rec.fail("wrong-subset", format!("{}: loaded {} but the filter selects {} (full policy {})", descr, got, want, full)); }
                if flag != bool_s(left_out) { rec.fail("wrong-is-filtered", format!("{}: is_filtered = {} but left_out = {}", descr, flag, left_out)); }
                rec.count(if left_out { "filter:leaves-out" } else { "filter:keeps-all" });
                // a further filtered load that FAILS (the file is gone) keeps the subset and must keep the guard
                if flag == "true" && kind == "file" && rng.chance(1, 2) {
                    rec.exec(w, "fs.unlink");
                    let r3 = rec.exec(w, &format!("e.loadfc\t{}\t{}", enc_list(&fp), enc_list(&fg)));
                    let got3 = rec.exec(w, "e.pol");
                    let flag4 = rec.exec(w, "e.filtered");
                    if r3 != "err" { rec.fail("failed-filtered-load-not-reported", format!("{}: load_filtered_policy with the file removed -> {}", descr, r3)); }
                    if got3 != got { rec.fail("failed-filtered-load-changed-policy", format!("{}: after the failed second filtered load the enforcer holds {} (was {})", descr, got3, got)); }
                    if flag4 != "true" { rec.fail("filtered-flag-lost", format!("{}: after a failed second filtered load is_filtered = {} although the enforcer still holds only the subset {}", descr, flag4, got3)); }
                    let s = rec.exec(w, "e.save");
                    if s != "panic" { rec.fail("filtered-save-allowed", format!("{}: after a failed second filtered load save_policy returned {}", descr, s)); }
                    rec.count("failed-second-filtered-load");
                    rec.count(&format!("adapter:{}", kind));
                    rec.nontrivial_case(&descr);
                    continue;
                }
                // a `clear_policy` that fails in the file adapter's own write (its temporary file cannot be created): nothing is
                // cleared, the enforcer keeps the subset, and the guard must stay (implementation only: the fault is a real one)
                if flag == "true" && kind == "file" && rng.chance(1, 2) {
                    rec.exec_impl_only(w, "fs.blocktmp");
                    let rc = rec.exec_impl_only(w, "e.clear");
                    let got6 = rec.exec_impl_only(w, "e.pol");
                    let flag6 = rec.exec_impl_only(w, "e.filtered");
                    rec.exec_impl_only(w, "fs.unblocktmp");
                    if !rc.starts_with("err") { rec.fail("failed-clear-not-reported", format!("{}: clear_policy with the adapter's temporary file blocked -> {}", descr, rc)); }
                    else if got6 != got { rec.fail("failed-clear-changed-policy", format!("{}: after the failed clear_policy the enforcer holds {} (was {})", descr, got6, got)); }
                    else if flag6 != "true" { rec.fail("filtered-flag-lost", format!("{}: after a failed clear_policy is_filtered = {} although the enforcer still holds only the subset {}", descr, flag6, got6)); }
                    let s = rec.exec_impl_only(w, "e.save");
                    if rc.starts_with("err") && s != "panic" { rec.fail("filtered-save-allowed", format!("{}: after a failed clear_policy save_policy returned {}", descr, s)); }
                    rec.count("failed-clear-on-filtered-file-enforcer");
                    rec.count(&format!("adapter:{}", kind));
                    rec.nontrivial_case(&descr);
                    continue;
                }
                // the store is edited and saved between two filtered loads: full load, an addition and a removal with auto-save
                // off, save_policy, the same filtered load again — it selects from what is stored now
                if rng.chance(1, 4) {
                    let l0 = rec.exec(w, "e.load");
                    rec.exec(w, "e.auto\tsave\tfalse");
                    let mut lines2 = lines.clone();
                    let newr = sv(&["p", "p", *rng.pick(&vals), "b", "zz2"]);
                    rec.exec(w, &MOp::Add("p".into(), "p".into(), newr[2..].to_vec()).line());
                    // p lines stay before g lines, p before p2 (the order save_policy writes and get_all_policy lists)
                    let pos = lines2.iter().position(|l| !(l[0] == "p" && l[1] == "p")).unwrap_or(lines2.len());
                    lines2.insert(pos, newr);
                    if let Some(i) = lines2.iter().position(|l| l[0] == "g" && l[1] == "g") { let gone = lines2.remove(i); rec.exec(w, &MOp::Rm("g".into(), "g".into(), gone[2..].to_vec()).line()); }
                    let s0 = rec.exec(w, "e.save");
                    let r5 = rec.exec(w, &format!("e.loadf\t{}\t{}", enc_list(&fp), enc_list(&fg)));
                    let got5 = rec.exec(w, "e.pol");
                    let flag5 = rec.exec(w, "e.filtered");
                    let mut wp = vec![]; let mut wg = vec![]; let mut left_out5 = false;
                    for l in &lines2 { let f = if l[0] == "p" { &fp } else { &fg }; if keeps(f, &l[2..]) { if l[0] == "p" { wp.push(l.clone()) } else { wg.push(l.clone()) } } else { left_out5 = true; } }
                    let want5 = format!("{} {}", enc_lists(&grp(&wp, ["p", "p2"])), enc_lists(&grp(&wg, ["g", "g2"])));
                    if l0 != "ok" || s0 != "ok" || r5 != "ok" { rec.fail("filtered-load-failed", format!("{}: load -> {}, edit, save -> {}, second filtered load -> {}", descr, l0, s0, r5)); }
                    else if got5 != want5 { rec.fail("wrong-subset", format!("{}: after load, an edit and save, the same filtered load gives {} but the filter selects {} from the edited store", descr, got5, want5)); }
                    else if flag5 != bool_s(left_out5) { rec.fail("wrong-is-filtered", format!("{}: after the edit is_filtered = {} but left_out = {}", descr, flag5, left_out5)); }
                    rec.count("filtered-load-after-edit-and-save");
                    rec.count(&format!("adapter:{}", kind));
                    rec.nontrivial_case(&descr);
                    continue;
                }
                // a filtered enforcer can never overwrite the full store
                if flag == "true" {
                    let s = rec.exec(w, "e.save");
                    let stored = rec.exec(w, "e.reload");
                    if s != "panic" { rec.fail("filtered-save-allowed", format!("{}: save_policy on a filtered enforcer returned {}", descr, s)); }
                    if stored != full { rec.fail("filtered-save-overwrote", format!("{}: store is {} after the attempted save, was {}", descr, stored, full)); }
                    rec.count("save:attempted-on-filtered");
                }
                // a second, unfiltered (empty) filtered load resets the flag and loads everything
                if rng.chance(1, 4) {
                    rec.exec(w, "e.loadf\t-\t-");
                    let again = rec.exec(w, "e.pol");
                    let flag2 = rec.exec(w, "e.filtered");
                    if again != full || flag2 != "false" { rec.fail("empty-filter-not-full", format!("{}: then an empty filter loaded {} (flag {})", descr, again, flag2)); }
                }
                // the constructor over a plain adapter loads everything, whatever the model it is given already holds
                if rng.chance(1, 3) {
                    let (mem2, text2) = content(kind, &lines, &mut rng);
                    let r2 = rec.exec(w, &format!("e.newpre\t{}\t{}\t{}\t{}\t{}", kind, enc_lists(&mem2), esc(&text2), enc_list(&fp), enc_list(&fg)));
                    let got2 = rec.exec(w, "e.pol");
                    let flag3 = rec.exec(w, "e.filtered");
                    if r2 == "ok" && (got2 != full || flag3 != "false") { rec.fail("constructor-kept-prefilled-subset", format!("{}: Enforcer::new over a plain adapter with a model pre-filled through that filter holds {} (is_filtered {}), the store is {}", descr, got2, flag3, full)); }
                    rec.count("constructor:prefilled-model");
                }
                rec.count(&format!("adapter:{}", kind));
                rec.nontrivial_case(&descr);
                if si == 0 && kind == "string" { rec.sample(descr.clone()); }
            }
        }
    }
}
