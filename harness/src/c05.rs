//! C05 — with auto-build on, an explicit build_role_links changes no decision and no role query.
use crate::ast::*;
use crate::interp::World;
use crate::mgmt::*;
use crate::proto::*;

pub struct Cfg {
    pub name: &'static str,
    pub model: ModelDef,
    pub p_rules: Vec<Vec<String>>,
    /// per role definition: (key, rule universe)
    pub g_rules: Vec<(String, Vec<Vec<String>>)>,
    pub reqs: Vec<Vec<String>>,
    pub names: Vec<String>,
    pub doms: Vec<Option<String>>,
    /// names shared between role definitions (the shared role manager can then be observed)
    pub shared_names: bool,
}

fn s(x: &str) -> String { x.to_string() }

pub fn configs() -> Vec<Cfg> {
    let r = |i| Ex::R(i);
    let p = |i| Ex::P(i);
    let rt = sv(&["sub", "obj", "act"]);
    let pt = sv(&["sub", "obj", "act"]);
    let mut out = vec![];
    // (a) one definition, two fields; some rules longer than the definition, a self-link
    let m_rbac = and(and(Ex::G2(s("g"), b(r(0)), b(p(0))), eq(r(1), p(1))), eq(r(2), p(2)));
    let names = ["alice", "bob", "admin", "staff"];
    let mut g2f = vec![];
    for a in names { for c in names { g2f.push(sv(&[a, c])); } }
    g2f.push(sv(&["alice", "admin", "x"]));
    g2f.push(sv(&["alice", "admin", "y"]));
    let mut reqs = vec![];
    for a in ["alice", "bob", "admin"] { for o in ["d1"] { for c in ["read"] { reqs.push(sv(&[a, o, c])); } } }
    out.push(Cfg { name: "rbac", model: ModelDef { r: vec![(s("r"), rt.clone())], p: vec![(s("p"), pt.clone())], g: vec![(s("g"), 2)],
            e: vec![(s("e"), s(E_ALLOW))], m: vec![(s("m"), m_rbac.sexpr(), m_rbac.text("r", &rt, "p", &pt))], tbl: vec![] },
        p_rules: vec![sv(&["admin", "d1", "read"]), sv(&["staff", "d1", "read"]), sv(&["alice", "d1", "read"])],
        g_rules: vec![(s("g"), g2f)], reqs: reqs.clone(), names: sv(&names), doms: vec![None], shared_names: false });
    // (b) one definition with a domain
    let rt4 = sv(&["sub", "dom", "obj", "act"]);
    let m_dom = and(and(and(Ex::G3(s("g"), b(r(0)), b(p(0)), b(r(1))), eq(r(1), p(1))), eq(r(2), p(2))), eq(r(3), p(3)));
    let mut g3f = vec![];
    for a in ["alice", "bob", "admin"] { for c in ["admin", "staff", "alice"] { for d in ["d1", "d2"] { g3f.push(sv(&[a, c, d])); } } }
    let mut reqs4 = vec![];
    for a in ["alice", "bob", "admin"] { for d in ["d1", "d2"] { reqs4.push(sv(&[a, d, "o", "read"])); } }
    out.push(Cfg { name: "domains", model: ModelDef { r: vec![(s("r"), rt4.clone())], p: vec![(s("p"), rt4.clone())], g: vec![(s("g"), 3)],
            e: vec![(s("e"), s(E_ALLOW))], m: vec![(s("m"), m_dom.sexpr(), m_dom.text("r", &rt4, "p", &rt4))], tbl: vec![] },
        p_rules: vec![sv(&["admin", "d1", "o", "read"]), sv(&["staff", "d2", "o", "read"]), sv(&["admin", "d2", "o", "read"])],
        g_rules: vec![(s("g"), g3f)], reqs: reqs4, names: sv(&["alice", "bob", "admin", "staff"]), doms: vec![Some(s("d1")), Some(s("d2"))], shared_names: false });
    // (c)/(d) user roles + resource roles, disjoint / shared name universes
    let m_rr = and(and(Ex::G2(s("g"), b(r(0)), b(p(0))), Ex::G2(s("g2"), b(r(1)), b(p(1)))), eq(r(2), p(2)));
    for shared in [false, true] {
        let mut gu = vec![]; let mut gr = vec![];
        for a in ["alice", "bob", "admin"] { for c in ["admin", "staff"] { gu.push(sv(&[a, c])); } }
        if shared { for a in ["alice", "admin", "d1"] { for c in ["admin", "grp", "staff"] { gr.push(sv(&[a, c])); } } }
        else { for a in ["d1", "d2", "grp"] { for c in ["grp", "grp2"] { gr.push(sv(&[a, c])); } } }
        let mut rq = vec![];
        for a in ["alice", "bob", "admin"] { for o in ["d1", "d2", "grp", "alice"] { rq.push(sv(&[a, o, "read"])); } }
        out.push(Cfg { name: if shared { "resource-roles-shared-names" } else { "resource-roles" },
            model: ModelDef { r: vec![(s("r"), rt.clone())], p: vec![(s("p"), pt.clone())], g: vec![(s("g"), 2), (s("g2"), 2)],
                e: vec![(s("e"), s(E_ALLOW))], m: vec![(s("m"), m_rr.sexpr(), m_rr.text("r", &rt, "p", &pt))], tbl: vec![] },
            p_rules: vec![sv(&["admin", "grp", "read"]), sv(&["staff", "d1", "read"]), sv(&["alice", "grp2", "read"]), sv(&["admin", "admin", "read"])],
            g_rules: vec![(s("g"), gu), (s("g2"), gr)], reqs: rq, names: sv(&["alice", "bob", "admin", "staff", "d1", "grp"]), doms: vec![None], shared_names: shared });
    }
    // (e) two definitions of different arity (g2 carries a domain), disjoint names
    let rt4b = sv(&["sub", "dom", "obj", "act"]);
    let m_mix = and(and(and(Ex::G2(s("g"), b(r(0)), b(p(0))), Ex::G3(s("g2"), b(r(2)), b(p(2)), b(r(1)))), eq(r(1), p(1))), eq(r(3), p(3)));
    let mut gu = vec![]; let mut gd = vec![];
    for a in ["alice", "bob", "admin"] { for c in ["admin", "staff"] { gu.push(sv(&[a, c])); } }
    for a in ["o1", "o2", "grp"] { for c in ["grp", "grp2"] { for d in ["d1", "d2"] { gd.push(sv(&[a, c, d])); } } }
    let mut rq = vec![];
    for a in ["alice", "bob"] { for d in ["d1", "d2"] { for o in ["o1", "grp"] { rq.push(sv(&[a, d, o, "read"])); } } }
    out.push(Cfg { name: "mixed-arity", model: ModelDef { r: vec![(s("r"), rt4b.clone())], p: vec![(s("p"), rt4b.clone())], g: vec![(s("g"), 2), (s("g2"), 3)],
            e: vec![(s("e"), s(E_ALLOW))], m: vec![(s("m"), m_mix.sexpr(), m_mix.text("r", &rt4b, "p", &rt4b))], tbl: vec![] },
        p_rules: vec![sv(&["admin", "d1", "grp", "read"]), sv(&["staff", "d2", "grp2", "read"]), sv(&["alice", "d1", "o1", "read"])],
        g_rules: vec![(s("g"), gu), (s("g2"), gd)], reqs: rq, names: sv(&["alice", "bob", "admin", "o1", "grp"]), doms: vec![None, Some(s("d1")), Some(s("d2"))], shared_names: false });
    out
}

pub fn dom_f(d: &Option<String>) -> String { match d { None => "-".to_string(), Some(x) => esc(x) } }

/// all decisions + role queries, as one string (several protocol lines)
pub fn snapshot(rec: &mut Recorder, w: &mut World, c: &Cfg) -> String {
    let mut out = rec.exec(w, &format!("e.enfs\t{}", reqs_field(&c.reqs)));
    for d in &c.doms {
        for n in &c.names {
            out.push('|'); out.push_str(&rec.exec(w, &format!("e.roles\t{}\t{}", esc(n), dom_f(d))));
            out.push('|'); out.push_str(&rec.exec(w, &format!("e.users\t{}\t{}", esc(n), dom_f(d))));
            out.push('|'); out.push_str(&rec.exec(w, &format!("e.iroles\t{}\t{}", esc(n), dom_f(d))));
        }
    }
    out
}

#[derive(Clone, Debug)]
pub enum Step { M(MOp), Load, SetRm, KeepRm, SetRmKept, Fault(&'static str, MOp), AutoSave(bool), Save }

fn gen_step(rng: &mut Rng, c: &Cfg) -> Step {
    let (gk, gu) = rng.pick(&c.g_rules).clone();
    // a third of the picks come from the family of rules that share their first two fields with another
    // rule of the universe (same link implied by an exact-length and a longer rule, or in two domains)
    let fam: Vec<Vec<String>> = gu.iter().filter(|r| gu.iter().any(|o| o != *r && o[..2] == r[..2])).cloned().collect();
    let gr = |rng: &mut Rng| if !fam.is_empty() && rng.chance(1, 3) { fam[rng.below(fam.len())].clone() } else { gu[rng.below(gu.len())].clone() };
    let pr = |rng: &mut Rng| c.p_rules[rng.below(c.p_rules.len())].clone();
    let mop = |rng: &mut Rng| -> MOp {
        match rng.below(16) {
            0..=4 => MOp::Add(s("g"), gk.clone(), gr(rng)),
            5 | 6 => MOp::Rm(s("g"), gk.clone(), gr(rng)),
            7 => { let n = 1 + rng.below(3); MOp::AddM(s("g"), gk.clone(), (0..n).map(|_| gr(rng)).collect()) }
            8 => { let n = 1 + rng.below(3); MOp::RmM(s("g"), gk.clone(), (0..n).map(|_| gr(rng)).collect()) }
            9 => { let r = gr(rng); let idx = rng.below(2); let mut vals = vec![r[idx].clone()]; if rng.chance(1, 3) && idx == 0 { vals = vec![r[0].clone(), String::new()]; if r.len() > 2 { vals.push(r[2].clone()); } } MOp::RmF(s("g"), gk.clone(), idx, vals) }
            10 => if gk == "g" { MOp::DelUser(gr(rng)[0].clone()) } else { MOp::Rm(s("g"), gk.clone(), gr(rng)) },
            11 => if gk == "g" { MOp::DelRole(gr(rng)[1].clone()) } else { MOp::Add(s("g"), gk.clone(), gr(rng)) },
            12 | 13 => MOp::Add(s("p"), s("p"), pr(rng)),
            14 => MOp::Rm(s("p"), s("p"), pr(rng)),
            _ => MOp::Clear,
        }
    };
    match rng.below(22) {
        0 => Step::Load,
        1 => Step::SetRm,
        // keep a handle on the manager in use now; later hand that very manager back (by then it may hold links the stored
        // rules no longer imply)
        20 => Step::KeepRm,
        21 => Step::SetRmKept,
        2 => Step::Fault(*rng.pick(&["err", "refuse"]), mop(rng)),
        3 => Step::AutoSave(rng.chance(1, 2)),
        4 => Step::Save,
        _ => Step::M(mop(rng)),
    }
}

pub fn run(rec: &mut Recorder, w: &mut World, tier: &str, seed: u64) {
    let mut rng = Rng::new(seed);
    let cfgs = configs();
    let n_hist = (if tier == "thorough" { 1200 } else { 80 }) * rec.budget as usize;
    let maxlen = if tier == "thorough" { 60 } else { 25 };
    for c in &cfgs {
        for hi in 0..n_hist {
            rec.begin();
            let kind = *rng.pick(&["memory", "memory", "null", "file"]);
            new_enforcer(rec, w, &c.model, kind, &[], "", false);
            let len = 1 + rng.below(maxlen);
            let mut descr = vec![];
            for _ in 0..len {
                let st = gen_step(&mut rng, c);
                let line = match &st {
                    Step::M(op) => { rec.count(&format!("op:{}", op.kind())); rec.exec(w, &op.line()); op.line() }
                    Step::Load => { rec.count("op:load_policy"); rec.exec(w, "e.load"); s("e.load") }
                    Step::SetRm => { rec.count("op:set_role_manager"); rec.exec(w, "e.setrm"); s("e.setrm") }
                    Step::KeepRm => { rec.exec(w, "e.keeprm"); s("e.keeprm") }
                    Step::SetRmKept => { rec.count("op:set_role_manager(kept)"); rec.exec(w, "e.setrm\tkept"); s("e.setrm kept") }
                    Step::Fault(f, op) => { rec.count("op:rejected-call"); rec.exec(w, &format!("e.fault\t{}", fault_plan(op, f))); rec.exec(w, &op.line()); rec.exec(w, "e.fault\t-"); format!("fault {} {}", f, op.line()) }
                    Step::AutoSave(v) => { rec.exec(w, &format!("e.auto\tsave\t{}", v)); format!("autosave {}", v) }
                    Step::Save => { rec.count("op:save_policy"); rec.exec(w, "e.save"); s("e.save") }
                };
                descr.push(line.replace('\t', " "));
                // the property: an explicit rebuild changes nothing observable
                let before = snapshot(rec, w, c);
                let b = rec.exec(w, "e.build");
                let after = snapshot(rec, w, c);
                if b != "ok" {
                    rec.fail("rebuild-failed", format!("[{}] build_role_links returned {} after {}", c.name, b, descr.join(" ; ")));
                } else if before != after {
                    let sig = if c.shared_names { "shared-role-manager" } else { "stale-role-links" };
                    rec.fail(sig, format!("[{}] build_role_links changed decisions / role queries after: {} :: before {} after {}", c.name, descr.join(" ; "), before, after));
                    rec.count("rebuild:changed-something");
                    break;
                } else { rec.count("rebuild:identity"); }
            }
            rec.nontrivial_case(&format!("{}|{}", c.name, descr.join("|")));
            rec.count(&format!("config:{}", c.name));
            if hi == 0 { rec.sample(format!("[{}] {}", c.name, descr.iter().take(8).cloned().collect::<Vec<_>>().join(" ; "))); }
        }
    }
    // ---- a reload that fails (in the adapter after some rules, or in the link build on a rule too short to link) while the
    //      enforcer stores no grouping rule at all, or only some: the rules that were stored come back, and the graph must be
    //      the one they imply - nothing the aborted load linked may stay ----
    let n_fail = (if tier == "thorough" { 300 } else { 30 }) * rec.budget as usize;
    for c in cfgs.iter().filter(|c| !c.shared_names) {
        for fi in 0..n_fail {
            rec.begin();
            new_enforcer(rec, w, &c.model, "memory", &[], "", false);
            let mut descr = vec![];
            // two thirds of the histories start the failing reload with no grouping rule stored
            if fi % 3 == 2 { for _ in 0..1 + rng.below(3) { let (gk, gu) = rng.pick(&c.g_rules).clone(); let op = MOp::Add(s("g"), gk, rng.pick(&gu).clone()); rec.exec(w, &op.line()); descr.push(op.line().replace('\t', " ")); } }
            if !c.p_rules.is_empty() && rng.chance(1, 2) { let op = MOp::Add(s("p"), s("p"), rng.pick(&c.p_rules).clone()); rec.exec(w, &op.line()); descr.push(op.line().replace('\t', " ")); }
            let mut other: Vec<Vec<String>> = vec![];
            for (gk, uni) in &c.g_rules { for _ in 0..1 + rng.below(3) { let mut l = vec!["g".to_string(), gk.clone()]; l.extend(rng.pick(uni).clone()); if !other.contains(&l) { other.push(l); } } }
            let out = if fi % 2 == 0 {
                // the last delivered grouping rule is too short to link
                other.push(vec!["g".to_string(), c.g_rules[c.g_rules.len() - 1].0.clone(), "zz".to_string()]);
                rec.exec(w, &format!("e.setadapter\tmemory\t{}\t", enc_lists(&other)))
            } else {
                let k = 1 + rng.below(other.len());
                rec.exec(w, &format!("e.setadapter\tmemory\t{}\t\tfail{}", enc_lists(&other), k))
            };
            descr.push(format!("set_adapter({:?}) -> {}", other, out));
            rec.count(&format!("failing-reload:{}", if out.starts_with("err") { "failed" } else { "went-through" }));
            let before = snapshot(rec, w, c);
            let b = rec.exec(w, "e.build");
            let after = snapshot(rec, w, c);
            if b == "ok" && before != after { rec.fail("stale-role-links", format!("[{}] build_role_links changed decisions / role queries after: {} :: before {} after {}", c.name, descr.join(" ; "), before, after)); }
            rec.nontrivial_case(&format!("failing-reload|{}|{}", c.name, descr.join("|")));
        }
    }
    // ---- the installed role manager edited through the caller's handle (a stray link, or emptied) and then handed to
    //      set_role_manager again: that call rebuilds, so from there on an explicit rebuild changes nothing ----
    let n_hand = (if tier == "thorough" { 200 } else { 20 }) * rec.budget as usize;
    for c in cfgs.iter().filter(|c| !c.shared_names) {
        for hi in 0..n_hand {
            rec.begin();
            new_enforcer(rec, w, &c.model, "memory", &[], "", false);
            let mut descr = vec![];
            for _ in 0..1 + rng.below(4) { let (gk, gu) = rng.pick(&c.g_rules).clone(); let op = MOp::Add(s("g"), gk, rng.pick(&gu).clone()); rec.exec(w, &op.line()); descr.push(op.line().replace('\t', " ")); }
            if !c.p_rules.is_empty() { let op = MOp::Add(s("p"), s("p"), rng.pick(&c.p_rules).clone()); rec.exec(w, &op.line()); descr.push(op.line().replace('\t', " ")); }
            rec.exec(w, "e.keeprm");
            if hi % 3 == 2 { rec.exec(w, "e.rmh\tclear"); descr.push(s("handle.clear()")); }
            else { for _ in 0..1 + rng.below(2) { let (_, gu) = rng.pick(&c.g_rules).clone(); let r = rng.pick(&gu).clone();
                let dom = if r.len() > 2 { esc(&r[2]) } else { s("-") };
                rec.exec(w, &format!("e.rmh\tadd\t{}\t{}\t{}", esc(&r[0]), esc(&r[1]), dom)); descr.push(format!("handle.add_link({:?})", r)); } }
            let o = rec.exec(w, "e.setrm\tkept"); descr.push(format!("set_role_manager(the same handle) -> {}", o));
            let before = snapshot(rec, w, c);
            let b = rec.exec(w, "e.build");
            let after = snapshot(rec, w, c);
            if b == "ok" && before != after { rec.fail("stale-role-links", format!("[{}] build_role_links changed decisions / role queries after: {} :: before {} after {}", c.name, descr.join(" ; "), before, after)); }
            rec.count("handle-edited-and-handed-back");
            rec.nontrivial_case(&format!("handed-back|{}|{}", c.name, descr.join("|")));
        }
    }
    // ---- construction: the model handed to the constructor already holds rules (an adapter-level filtered
    //      load) and the adapter reports is_filtered, so the constructor does not load: the graph must still
    //      reflect the grouping rules the enforcer now stores ----
    let n_ctor = (if tier == "thorough" { 400 } else { 40 }) * rec.budget as usize;
    for c in cfgs.iter().filter(|c| !c.shared_names) {
        for _ in 0..n_ctor {
            rec.begin();
            c.model.emit(rec, w);
            let mut lines: Vec<Vec<String>> = vec![];
            for _ in 0..1 + rng.below(4) { if c.p_rules.is_empty() { break; } let mut l = sv(&["p", "p"]); l.extend(rng.pick(&c.p_rules).clone()); if !lines.contains(&l) { lines.push(l); } }
            for (gk, uni) in &c.g_rules { for _ in 0..1 + rng.below(4) { let mut l = vec!["g".to_string(), gk.clone()]; l.extend(rng.pick(uni).clone()); if !lines.contains(&l) { lines.push(l); } } }
            lines.sort_by_key(|l| (l[0].clone() != "p") as u8);
            let kind = *rng.pick(&["memory", "file", "string"]);
            let (mem, text) = crate::c12::content(kind, &lines, &mut rng);
            // a policy filter on the first field that leaves some rule out (so the adapter is filtered), or none
            let fp: Vec<String> = if rng.chance(3, 4) { lines.iter().find(|l| l[0] == "p").map(|l| vec![l[2].clone()]).unwrap_or_default() } else { vec![] };
            let fg: Vec<String> = if rng.chance(1, 3) { lines.iter().find(|l| l[0] == "g").map(|l| vec![l[2].clone()]).unwrap_or_default() } else { vec![] };
            let r = rec.exec(w, &format!("e.newfilt\t{}\t{}\t{}\t{}\t{}", kind, enc_lists(&mem), esc(&text), enc_list(&fp), enc_list(&fg)));
            if r != "ok" { rec.count("constructor:failed"); continue; }
            let filtered = rec.exec(w, "e.filtered");
            let descr = format!("Enforcer::new(model pre-filled by an adapter-level load_filtered_policy(p={:?}, g={:?}) of {:?}, that {} adapter) [is_filtered {}]", fp, fg, lines, kind, filtered);
            let before = snapshot(rec, w, c);
            let b = rec.exec(w, "e.build");
            let after = snapshot(rec, w, c);
            if b == "ok" && before != after { rec.fail("stale-role-links", format!("[{}] build_role_links changed decisions / role queries right after {} :: before {} after {}", c.name, descr, before, after)); }
            rec.count(&format!("constructor:prefilled:filtered={}", filtered));
            rec.nontrivial_case(&descr);
        }
    }
}
