//! C08 — granting never revokes and revoking never grants.
use crate::ast::*;
use crate::c01::*;
use crate::interp::World;
use crate::mgmt::*;
use crate::proto::*;

fn granted(out: &str) -> Vec<bool> { out.bytes().map(|c| c == b't').collect() }
/// decided and refused (an evaluation error is neither a grant nor a denial: C06 makes it fail closed, and taking away the
/// malformed rule that caused it may well uncover a grant)
fn not_denied(out: &str) -> Vec<bool> { out.bytes().map(|c| c != b'f').collect() }

/// is `a` included in `b` (pointwise implication)? returns the first counterexample index
fn incl(a: &[bool], b: &[bool]) -> Option<usize> { a.iter().zip(b.iter()).position(|(x, y)| *x && !*y) }

pub fn run(rec: &mut Recorder, w: &mut World, tier: &str, seed: u64) {
    let mut rng = Rng::new(seed);
    let ks = kinds();
    let n_cfg = (if tier == "thorough" { 6000 } else { 900 }) * rec.budget as usize;
    let names = ["acl", "superuser", "rbac", "resource-roles", "domains", "keymatch", "keymatch2", "without-users"];
    for ci in 0..n_cfg {
        let kname = *rng.pick(&names);
        let mut k = ks.iter().find(|k| k.name == kname).unwrap().clone();
        // sometimes a random negation-free matcher over the rbac universes
        if rng.chance(1, 3) {
            let base = ks.iter().find(|k| k.name == "rbac").unwrap().clone();
            let gdefs = base.g.clone();
            let lits = ["alice", "admin", "data1", "read"];
            let ctx = GenCtx { nr: 3, np: 3, gdefs: &gdefs, lits: &lits, allow_neg: false };
            let depth = 1 + rng.below(3);
            let mut ex = gen_bool(&mut rng, &ctx, depth);
            // keep the family free of evaluation errors (unknown variables / non-boolean leaves)
            let mut opsv = vec![]; ex.ops(&mut opsv);
            if opsv.contains(&"unknown-var") || ex.has_negation() { ex = base.m.clone(); }
            k = base; k.m = ex;
            rec.count("model:random-negation-free");
        } else { rec.count(&format!("model:{}", k.name)); }
        let mode = *rng.pick(&["allow-override", "allow-override", "deny-override", "allow-and-deny"]);
        let eff = match mode { "allow-override" => E_ALLOW, "deny-override" => E_DENY, _ => E_BOTH };
        let with_eft = mode != "allow-override" || rng.chance(1, 2);
        // every fifth configuration keeps its rules under a second policy definition p2 (managed through the named calls) and
        // is asked through enforce_with_context("2")
        let ctx = ci % 5 == 4;
        let pk = if ctx { "p2" } else { "p" };
        let mut m = model_of(&k, eff, with_eft, "", false);
        if ctx { let b2 = model_of(&k, eff, with_eft, "2", rng.chance(1, 2)); m.r.extend(b2.r); m.p.extend(b2.p); m.e.extend(b2.e); m.m.extend(b2.m); rec.count("asked-through:enforce_with_context"); }
        let ask = |reqf: &str| if ctx { format!("e.enfcs\t2\t{}", reqf) } else { format!("e.enfs\t{}", reqf) };
        let mut rules: Vec<Vec<String>> = vec![];
        let big = rng.chance(1, 8);
        for _ in 0..(if big { rng.below(25) } else { rng.below(4) }) { let r = gen_rule(&mut rng, &k, with_eft); if !rules.contains(&r) { rules.push(r); } }
        let mut links = gen_links(&mut rng, &k);
        for l in links.iter_mut() { l.truncate(if big { 15 } else { 3 }); l.dedup(); }
        rec.begin();
        // every fourth configuration runs on a CachedEnforcer (the property is about what callers observe)
        let cached = ci % 4 == 3;
        if cached { rec.exec(w, "e.cached\ttrue"); rec.count("enforcer:cached"); }
        let r0 = new_enforcer(rec, w, &m, "memory", &lines_of(pk, &rules, &k.g, &links), "", false);
        if r0 != "ok" { if cached { rec.exec(w, "e.cached\tfalse"); } continue; }
        let reqs = requests(&k);
        let reqf = enc_reqs(&reqs);
        // every sixth configuration with role definitions starts with links pending: role-link building is switched off, a few
        // grouping rules are added, and it is switched on again without a rebuild - the steps that follow are ordinary single
        // additions and removals, and each of them must still be monotone
        let mut pending: Vec<(usize, Vec<String>)> = vec![];
        if !k.g.is_empty() && ci % 6 == 5 {
            rec.exec(w, "e.auto\tbuild\tfalse");
            for _ in 0..2 + rng.below(2) { let gi = rng.below(k.g.len()); let r = rng.pick(&k.links[gi]).clone();
                if rec.exec(w, &MOp::Add("g".into(), k.g[gi].0.clone(), r.clone()).line()) == "true" { pending.push((gi, r)); } }
            rec.exec(w, "e.auto\tbuild\ttrue");
            rec.count("setup:links-pending");
        }
        let steps = 1 + rng.below(4);
        let mut before = rec.exec(w, &ask(&reqf));
        let mut cur_rules = rules.clone();
        let mut descr: Vec<String> = vec![];
        if !pending.is_empty() { descr.push(format!("[links added while building was off, then building switched on: {:?}]", pending)); }
        for _ in 0..steps {
            // one single-step addition / removal of a rule or a link
            let (line, kind): (String, &str) = match rng.below(if k.g.is_empty() { 2 } else { 4 }) {
                // under allow-override sometimes a rule with a field too few or too many (an error when reached — never a grant),
                // sometimes one batch naming the new rule twice
                0 if mode == "allow-override" && rng.chance(1, 8) => { let mut r = gen_rule(&mut rng, &k, with_eft); if rng.chance(1, 2) { r.pop(); } else { r.push("extra".to_string()); } rec.count("step:add-rule-of-wrong-length"); (MOp::Add("p".into(), pk.into(), r).line(), "add-rule") }
                0 if rng.chance(1, 6) => { let r = gen_rule(&mut rng, &k, with_eft); rec.count("step:batch-with-repeated-rule"); (MOp::AddM("p".into(), pk.into(), vec![r.clone(), r]).line(), "add-rule") }
                0 => { let r = gen_rule(&mut rng, &k, with_eft); (MOp::Add("p".into(), pk.into(), r).line(), "add-rule") }
                1 => { if cur_rules.is_empty() { continue; } let r = cur_rules[rng.below(cur_rules.len())].clone(); (MOp::Rm("p".into(), pk.into(), r).line(), "remove-rule") }
                // a batch of links in which a rule too short to be linked follows a good one: the call fails, whatever it did stays
                // an addition
                2 if rng.chance(1, 6) => { let gi = rng.below(k.g.len()); let r = rng.pick(&k.links[gi]).clone(); let short = vec![r[0].clone()]; rec.count("step:link-batch-with-unlinkable-rule"); (MOp::AddM("g".into(), k.g[gi].0.clone(), vec![r, short]).line(), "add-link") }
                2 => { let gi = rng.below(k.g.len()); let r = rng.pick(&k.links[gi]).clone(); (MOp::Add("g".into(), k.g[gi].0.clone(), r).line(), "add-link") }
                _ if !pending.is_empty() && rng.chance(1, 2) => { let (gi, r) = pending.remove(rng.below(pending.len())); rec.count("step:remove-pending-link"); (MOp::Rm("g".into(), k.g[gi].0.clone(), r).line(), "remove-link") }
                _ => { let gi = rng.below(k.g.len()); let r = rng.pick(&k.links[gi]).clone(); (MOp::Rm("g".into(), k.g[gi].0.clone(), r).line(), "remove-link") }
            };
            let store_was_empty = rec.exec(w, &format!("e.get\tp\t{}", pk)) == "-";
            let res = rec.exec(w, &line);
            descr.push(line.replace('\t', " "));
            let after = rec.exec(w, &ask(&reqf));
            let (gb, ga) = (granted(&before), granted(&after));
            let f = line.split('\t').collect::<Vec<_>>();
            let rule_fields = if f[0] == "e.addm" { dec_lists(f[3]).into_iter().next().unwrap_or_default() } else { dec_list(f[3]) };
            let is_deny_rule = with_eft && rule_fields.last().map(|x| x == "deny").unwrap_or(false);
            let viol: Option<(usize, &str)> = match (mode, kind) {
                ("allow-override", "add-rule") | ("allow-override", "add-link") => incl(&gb, &ga).map(|i| (i, "an addition revoked a grant")),
                ("allow-override", "remove-rule") | ("allow-override", "remove-link") => incl(&ga, &not_denied(&before)).map(|i| (i, "a removal granted a request")),
                (_, "add-rule") if mode != "allow-override" && is_deny_rule => incl(&ga, &gb).map(|i| (i, "adding a deny rule granted a request")),
                (_, "remove-rule") if mode != "allow-override" && is_deny_rule => incl(&gb, &ga).map(|i| (i, "removing a deny rule denied a request")),
                _ => None,
            };
            rec.count(&format!("step:{}:{}", mode, kind));
            if res == "true" { rec.count("step:changed-store"); }
            if let Some((i, what)) = viol {
                // the one specified corner: an empty store evaluates the matcher on empty fields
                let store_is_empty = rec.exec(w, &format!("e.get\tp\t{}", pk)) == "-";
                let sig = if (store_was_empty && kind == "add-rule") || (store_is_empty && kind == "remove-rule") { "empty-store-grant" } else { "not-monotone" };
                rec.fail(sig, format!("[{} {}] {}: request {:?} went {} -> {} after {} (matcher {})", k.name, mode, what, reqs[i], &before[i..i + 1], &after[i..i + 1], descr.join(" ; "), m.m[0].2));
            }
            if (line.starts_with("e.add\tp") || line.starts_with("e.addm\tp")) && res == "true" { cur_rules.push(rule_fields.clone()); }
            if line.starts_with("e.rm\tp") && res == "true" { cur_rules.retain(|r| *r != rule_fields); }
            before = after;
        }
        if cached { rec.exec(w, "e.cached\tfalse"); }
        rec.nontrivial_case(&format!("{}|{}|{:?}|{:?}|{}", m.m[0].2, mode, rules, links, descr.join("|")));
        if ci < 3 { rec.sample(format!("matcher={} mode={} rules={:?} links={:?} steps={}", m.m[0].2, mode, rules, links, descr.join(" ; "))); }
    }
    // ---- pattern role names (implementation only: a role-matching function is installed on the role
    //      manager before any link exists, so the graph maintains its match edges incrementally) ----
    let n_pat = (if tier == "thorough" { 3000 } else { 400 }) * rec.budget as usize;
    let base = ks.iter().find(|k| k.name == "rbac").unwrap().clone();
    let m = model_of(&base, E_ALLOW, false, "", false);
    let pnames = ["alice", "bob", "guest", "reader", "*", "b*", "gu*"];
    let subs = ["alice", "bob", "guest", "reader", "*", "bo"];
    let mut reqs: Vec<Vec<String>> = vec![];
    for s in subs { for o in ["data1", "data2"] { for a in ["read", "write"] { reqs.push(vec![sval(s), sval(o), sval(a)]); } } }
    let reqf = enc_reqs(&reqs);
    for pi in 0..n_pat {
        rec.begin();
        m.emit(rec, w);
        let r0 = rec.exec_impl_only(w, "e.new\tmemory\t-\t\t-");
        if r0 != "ok" { rec.fail("new-failed", format!("pattern-role stream: cannot build the enforcer: {}", r0)); continue; }
        rec.exec_impl_only(w, "e.rolematch\tkeyMatch\t-");
        let mut before = rec.exec_impl_only(w, &format!("e.enfs\t{}", reqf));
        let mut descr: Vec<String> = vec![];
        // names that are nodes of the role graph so far (a node stays once a link has mentioned it)
        let mut nodes: std::collections::BTreeSet<String> = Default::default();
        let mut cur_links: Vec<Vec<String>> = vec![];
        let mut links: Vec<Vec<String>> = vec![];
        let mut rules: Vec<Vec<String>> = vec![];
        // half of the histories are guided: a pattern name linked to a role that holds a rule, a concrete name the
        // pattern matches made known to the graph, then a link between the pattern and that very name; the rest is random
        let mut script: Vec<(String, &str)> = vec![];
        if pi == 0 {
            // the recorded witness of the known finding K2 (a name becoming a node of its own), so that it is
            // exercised - and reported as KNOWN-FINDING - on every run
            let g = |a: &str, c: &str| MOp::Add("g".into(), "g".into(), sv(&[a, c])).line();
            script = vec![(g("b*", "alice"), "add-link"), (g("*", "guest"), "add-link"), (MOp::Rm("g".into(), "g".into(), sv(&["*", "guest"])).line(), "remove-link"),
                (g("reader", "guest"), "add-link"), (g("b*", "*"), "add-link"), (MOp::Add("p".into(), "p".into(), sv(&["guest", "data1", "read"])).line(), "add-rule"), (g("guest", "bob"), "add-link")];
            script.reverse();
        } else if pi % 5 == 1 {
            // two nested patterns that both match one concrete name (the more specific first, each leading to a role of its own,
            // no link between patterns), then the first link that mentions the name: it must keep what both patterns gave it
            let g = |a: &str, c: &str| MOp::Add("g".into(), "g".into(), sv(&[a, c])).line();
            let (spec, gen, name) = *rng.pick(&[("b*", "*", "bob"), ("gu*", "*", "guest"), ("bo*", "b*", "bob")]);
            let (r1, r2) = *rng.pick(&[("reader", "alice"), ("alice", "reader")]);
            script = vec![(g(spec, r1), "add-link"), (g(gen, r2), "add-link"),
                (MOp::Add("p".into(), "p".into(), sv(&[r1, "data1", "read"])).line(), "add-rule"), (MOp::Add("p".into(), "p".into(), sv(&[r2, "data2", "read"])).line(), "add-rule"),
                (g(name, "guest2"), "add-link")];
            script.reverse();
            rec.count("pattern-roles:nested-patterns-history");
        } else if rng.chance(1, 2) {
            let (pat, name) = *rng.pick(&[("*", "guest"), ("*", "bob"), ("b*", "bob"), ("gu*", "guest"), ("*", "reader")]);
            let role = *rng.pick(&["reader", "guest", "alice"]);
            let r = sv(&[role, *rng.pick(&["data1", "data2"]), *rng.pick(&["read", "write"])]);
            rules.push(r.clone());
            let mut pre = vec![(MOp::Add("p".into(), "p".into(), r).line(), "add-rule")];
            let l1 = sv(&[*rng.pick(&["alice", "bob", "reader"]), name]);
            if l1[0] != l1[1] { links.push(l1.clone()); pre.push((MOp::Add("g".into(), "g".into(), l1).line(), "add-link")); }
            if pat != role { let l2 = sv(&[pat, role]); links.push(l2.clone()); pre.push((MOp::Add("g".into(), "g".into(), l2).line(), "add-link")); }
            for i in (1..pre.len()).rev() { let j = rng.below(i + 1); pre.swap(i, j); }
            let l3 = sv(&[pat, name]); links.push(l3.clone());
            pre.push((MOp::Add("g".into(), "g".into(), l3).line(), "add-link"));
            script = pre;
            script.reverse();
            rec.count("pattern-roles:guided-history");
        }
        let steps = if pi == 0 { script.len() } else { 3 + rng.below(8) + script.len() };
        for _ in 0..steps {
            let (line, kind): (String, &str) = if let Some(x) = script.pop() { x } else { match rng.below(8) {
                0 | 1 => { let r = sv(&[*rng.pick(&["guest", "reader", "alice", "*"]), *rng.pick(&["data1", "data2"]), *rng.pick(&["read", "write"])]); rules.push(r.clone()); (MOp::Add("p".into(), "p".into(), r).line(), "add-rule") }
                2 => { if rules.is_empty() { continue; } let i = rng.below(rules.len()); (MOp::Rm("p".into(), "p".into(), rules.remove(i)).line(), "remove-rule") }
                3..=5 => { let r = sv(&[*rng.pick(&pnames), *rng.pick(&pnames)]); if r[0] == r[1] { continue; } links.push(r.clone()); (MOp::Add("g".into(), "g".into(), r).line(), "add-link") }
                _ => { if links.is_empty() { continue; } let i = rng.below(links.len()); (MOp::Rm("g".into(), "g".into(), links.remove(i)).line(), "remove-link") }
            } };
            let store_was_empty = rec.exec_impl_only(w, "e.get\tp\tp") == "-";
            // does this link call make a concrete name a node of the graph for the first time, while a pattern that
            // matches it is already a node?  (requests for that name then start from its own node instead of the pattern's)
            let mut shadowing = false;
            if kind.ends_with("link") {
                let f: Vec<&str> = line.split('\t').collect();
                // the links in force, taken from the calls themselves (scripts included)
                let l = dec_list(f[3]);
                if kind == "add-link" { if !cur_links.contains(&l) { cur_links.push(l); } } else { cur_links.retain(|x| *x != l); }
                for n in dec_list(f[3]) {
                    let is_new = !nodes.contains(&n);
                    if is_new && !n.contains('*') && nodes.iter().any(|p| p.contains('*') && casbin::function_map::key_match(&n, p)) { shadowing = true; }
                    if is_new && n.contains('*') && nodes.iter().any(|c| !c.contains('*') && casbin::function_map::key_match(c, &n)) { shadowing = true; }
                }
                for n in dec_list(f[3]) { nodes.insert(n); }
            }
            rec.exec_impl_only(w, &line);
            descr.push(line.replace('\t', " "));
            let after = rec.exec_impl_only(w, &format!("e.enfs\t{}", reqf));
            let (gb, ga) = (granted(&before), granted(&after));
            let viol = if kind.starts_with("add") { incl(&gb, &ga).map(|i| (i, "an addition revoked a grant")) } else { incl(&ga, &gb).map(|i| (i, "a removal granted a request")) };
            rec.count(&format!("pattern-roles:{}", kind));
            if let Some((i, what)) = viol {
                let store_is_empty = rec.exec_impl_only(w, "e.get\tp\tp") == "-";
                let sig = if (store_was_empty && kind == "add-rule") || (store_is_empty && kind == "remove-rule") { "empty-store-grant" }
                          // the recorded finding K2 needs a pattern that is itself linked to (or from) another pattern: only then does
                          // the new node's own neighbourhood fall short of what the pattern walk reached before
                          else if shadowing && cur_links.iter().any(|l| l.len() >= 2 && l[0].contains('*') && l[1].contains('*')) { "pattern-roles-new-node-shadows-pattern" } else { "not-monotone-pattern-roles" };
                rec.fail(sig, format!("[rbac allow-override, role matching fn keyMatch] {}: request {:?} went {} -> {} after {}", what, reqs[i], &before[i..i + 1], &after[i..i + 1], descr.join(" ; ")));
            }
            if after.contains('t') { rec.count("pattern-roles:state-with-grants"); }
            before = after;
        }
        rec.nontrivial_case(&format!("pattern|{}", descr.join("|")));
    }
    // ---- pattern domain names (implementation only: a domain-matching function on the role manager): a request domain is
    //      matched against the stored domains, so one request may draw on several of them; additions and removals of links in
    //      concrete and in pattern domains stay monotone ----
    let n_dpat = (if tier == "thorough" { 2000 } else { 250 }) * rec.budget as usize;
    let dk = ks.iter().find(|k| k.name == "domains").unwrap().clone();
    let dm = model_of(&dk, E_ALLOW, false, "", false);
    let dsubs = ["alice", "bob", "admin", "auditor"];
    let sdoms = ["*", "domain1", "domain2", "domain*"];
    let mut dreqs: Vec<Vec<String>> = vec![];
    for s in dsubs { for d in ["domain1", "domain2", "domain3"] { dreqs.push(vec![sval(s), sval(d), sval("data1"), sval("read")]); } }
    let dreqf = enc_reqs(&dreqs);
    for _ in 0..n_dpat {
        rec.begin();
        dm.emit(rec, w);
        if rec.exec_impl_only(w, "e.new\tmemory\t-\t\t-") != "ok" { rec.fail("new-failed", "pattern-domain stream: cannot build the enforcer".into()); continue; }
        rec.exec_impl_only(w, "e.rolematch\t-\tkeyMatch");
        // permission rules name concrete domains only (the matcher compares r.dom with p.dom literally)
        for _ in 0..1 + rng.below(3) { rec.exec_impl_only(w, &MOp::Add("p".into(), "p".into(), sv(&[*rng.pick(&["admin", "auditor", "alice"]), *rng.pick(&["domain1", "domain2"]), "data1", "read"])).line()); }
        let mut before = rec.exec_impl_only(w, &format!("e.enfs\t{}", dreqf));
        let mut links: Vec<Vec<String>> = vec![];
        let mut descr: Vec<String> = vec![];
        for _ in 0..2 + rng.below(6) {
            let (line, kind) = if links.is_empty() || rng.chance(2, 3) {
                let r = sv(&[*rng.pick(&dsubs), *rng.pick(&["admin", "auditor"]), *rng.pick(&sdoms)]);
                if r[0] == r[1] || links.contains(&r) { continue; }
                links.push(r.clone()); (MOp::Add("g".into(), "g".into(), r).line(), "add-link")
            } else { let i = rng.below(links.len()); (MOp::Rm("g".into(), "g".into(), links.remove(i)).line(), "remove-link") };
            rec.exec_impl_only(w, &line);
            descr.push(line.replace('\t', " "));
            let after = rec.exec_impl_only(w, &format!("e.enfs\t{}", dreqf));
            let (gb, ga) = (granted(&before), granted(&after));
            let viol = if kind == "add-link" { incl(&gb, &ga).map(|i| (i, "an addition revoked a grant")) } else { incl(&ga, &not_denied(&before)).map(|i| (i, "a removal granted a request")) };
            rec.count(&format!("pattern-domains:{}", kind));
            if let Some((i, what)) = viol {
                rec.fail("not-monotone-pattern-domains", format!("[domains allow-override, domain matching fn keyMatch] {}: request {:?} went {} -> {} after {}", what, dreqs[i], &before[i..i + 1], &after[i..i + 1], descr.join(" ; ")));
            }
            if after.contains('t') { rec.count("pattern-domains:state-with-grants"); }
            before = after;
        }
        rec.nontrivial_case(&format!("dpattern|{}", descr.join("|")));
    }
    // ---- the role manager as written, with matching functions, against the Lean model of the whole of
    //      default_role_manager.rs (`PatRoles.lean`): histories of add_link / delete_link / clear / matching_fn on a bare
    //      `DefaultRoleManager`, every has_link pair and the role / user listings compared after every step.  With a function
    //      installed these are fidelity observables (no listed property fixes what a pattern walk must answer); the first
    //      case replays the K2 witness that `Props/C08.lean` proves non-monotone in the model (`k2_witness`) ----
    let n_prm = (if tier == "thorough" { 2500 } else { 300 }) * rec.budget as usize;
    let km_names = ["alice", "bob", "guest", "reader", "*", "b*", "gu*", "bo"];
    let km2_names = ["/book/1", "/book/2", "/book/:id", "/book/*", "/pen/1", "/pen/:id", "alice", "/book/:x/y", "/book/1/y"];
    let prm_doms = ["-", "d1", "d2", "d*", "*"];
    for ci in 0..n_prm {
        rec.begin();
        let (rf, df) = if ci == 0 { ("keyMatch", "-") } else { *rng.pick(&[("keyMatch", "-"), ("keyMatch", "-"), ("-", "keyMatch"), ("keyMatch", "keyMatch"), ("keyMatch2", "-"), ("-", "-")]) };
        let names: &[&str] = if rf == "keyMatch2" { &km2_names } else { &km_names };
        let doms: Vec<&str> = if df == "-" && ci % 3 != 0 { vec!["-"] } else { prm_doms.to_vec() };
        let limit = if ci == 0 { 10 } else { *rng.pick(&[10usize, 10, 10, 3, 2, 1]) };
        rec.exec(w, &format!("prm.new\t{}\t{}\t{}", limit, rf, df));
        let names_s = enc_list(&names.iter().map(|x| x.to_string()).collect::<Vec<_>>());
        let doms_s = doms.join(",");
        let mut script: Vec<String> = vec![];
        if ci == 0 {
            for (a, b, add) in [("b*", "alice", true), ("*", "guest", true), ("*", "guest", false), ("reader", "guest", true), ("b*", "*", true)] {
                script.push(format!("prm.{}\t{}\t{}\t-", if add { "add" } else { "del" }, esc(a), esc(b)));
            }
            script.reverse();
        }
        let steps = if ci == 0 { script.len() } else { 3 + rng.below(12) };
        let mut links: Vec<(String, String, String)> = vec![];
        let mut descr: Vec<String> = vec![];
        let mut flush = 0;
        for _ in 0..steps {
            let line = if let Some(l) = script.pop() { l } else { match rng.below(20) {
                0..=10 => { let (a, b, d) = (*rng.pick(names), *rng.pick(names), *rng.pick(&doms)); links.push((a.into(), b.into(), d.into())); format!("prm.add\t{}\t{}\t{}", esc(a), esc(b), if d == "-" { "-".to_string() } else { esc(d) }) }
                11..=15 => { if !links.is_empty() && rng.chance(3, 4) { let (a, b, d) = links.remove(rng.below(links.len())); format!("prm.del\t{}\t{}\t{}", esc(&a), esc(&b), if d == "-" { "-".to_string() } else { esc(&d) }) }
                             else { let (a, b, d) = (*rng.pick(names), *rng.pick(names), *rng.pick(&doms)); format!("prm.del\t{}\t{}\t{}", esc(a), esc(b), if d == "-" { "-".to_string() } else { esc(d) }) } }
                16 => "prm.clear".to_string(),
                17 => { let (r2, d2) = *rng.pick(&[("keyMatch", "-"), ("-", "-"), ("-", "keyMatch"), ("keyMatch", "keyMatch")]); if rf == "keyMatch2" { continue; } format!("prm.fn\t{}\t{}", r2, d2) }
                _ => { let (a, d) = (*rng.pick(names), *rng.pick(&doms)); let dd = if d == "-" { "-".to_string() } else { esc(d) };
                       rec.exec(w, &format!("~prm.roles\t{}\t{}", esc(a), dd)); rec.exec(w, &format!("~prm.users\t{}\t{}", esc(a), dd)); rec.count("prm:listing-queries"); continue; }
            } };
            // the answer of a mutation (ok / err:rbac) is compared as a fidelity observable as well
            let r = rec.exec(w, &format!("~{}", line));
            if r == "panic" { rec.fail("role-manager-panicked", format!("[role manager, role fn {} domain fn {}] {} panicked after {}", rf, df, line.replace('\t', " "), descr.join(" ; "))); }
            descr.push(line.replace('\t', " "));
            if line.starts_with("prm.fn") || line.starts_with("prm.del") {
                // `matching_fn` keeps the manager's has_link result cache (feature `cached`, 50 entries with eviction - not in the
                // model), and so does a `delete_link` that only creates nodes (a domain-matching function lets it pass the
                // existence test through another domain): a new link in a domain of its own, between names no query mentions,
                // empties it
                flush += 1;
                rec.exec(w, &format!("~prm.add\tzz{}\tzy{}\tzz", flush, flush));
            }
            let snap = rec.exec(w, &format!("~prm.snap\t{}\t{}", names_s, doms_s));
            rec.count(&format!("prm:{}", line.split('\t').next().unwrap()));
            rec.count(&format!("prm:fn-{}-{}", rf, df));
            if snap.contains('t') { rec.count("prm:state-with-links"); }
        }
        if ci == 0 {
            // K2 at the level of the role manager: bob reaches guest through the patterns, and no longer does once
            // the link guest -> bob has made bob a node of its own
            let before = rec.exec(w, "~prm.has\tbob\tguest\t-");
            rec.exec(w, "~prm.add\tguest\tbob\t-");
            let after = rec.exec(w, "~prm.has\tbob\tguest\t-");
            rec.count(&format!("prm:k2-witness-{}-{}", before, after));
        }
        rec.nontrivial_case(&format!("prm|{}|{}|{}|{}", rf, df, limit, descr.join("|")));
    }
}
