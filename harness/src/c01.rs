//! C01 — decisions equal the PERM reference semantics (also the model family used by C06/C08/C17).
use crate::ast::*;
use crate::interp::World;
use crate::mgmt::*;
use crate::proto::*;

#[derive(Clone)]
pub struct Kind {
    pub name: &'static str,
    pub rt: Vec<String>,
    pub pt: Vec<String>, // without the eft column
    pub g: Vec<(String, usize)>,
    pub m: Ex,
    /// value universe per policy token (same order as pt)
    pub pvals: Vec<Vec<String>>,
    /// value universe per request token: encoded request values (s:.. / m:..)
    pub rvals: Vec<Vec<String>>,
    /// link universe per role definition: (a, b[, dom])
    pub links: Vec<Vec<Vec<String>>>,
    pub tbl: Vec<(String, Ex)>,
}

fn s(x: &str) -> String { x.to_string() }
fn svals(xs: &[&str]) -> Vec<String> { xs.iter().map(|x| sval(x)).collect() }

pub fn kinds() -> Vec<Kind> {
    let subs = ["alice", "bob", "root"];
    let objs = ["data1", "data2"];
    let acts = ["read", "write"];
    let r = |i| Ex::R(i);
    let p = |i| Ex::P(i);
    let acl = and(and(eq(r(0), p(0)), eq(r(1), p(1))), eq(r(2), p(2)));
    let mut v = vec![];
    v.push(Kind { name: "acl", rt: sv(&["sub", "obj", "act"]), pt: sv(&["sub", "obj", "act"]), g: vec![], m: acl.clone(),
        pvals: vec![sv(&subs), sv(&objs), sv(&acts)], rvals: vec![svals(&subs), svals(&objs), svals(&acts)], links: vec![], tbl: vec![] });
    v.push(Kind { name: "superuser", rt: sv(&["sub", "obj", "act"]), pt: sv(&["sub", "obj", "act"]), g: vec![],
        m: or(acl.clone(), eq(r(0), Ex::LitS(s("root")))),
        pvals: vec![sv(&subs), sv(&objs), sv(&acts)], rvals: vec![svals(&subs), svals(&objs), svals(&acts)], links: vec![], tbl: vec![] });
    v.push(Kind { name: "without-users", rt: sv(&["obj", "act"]), pt: sv(&["obj", "act"]), g: vec![],
        m: and(eq(r(0), p(0)), eq(r(1), p(1))),
        pvals: vec![sv(&objs), sv(&acts)], rvals: vec![svals(&objs), svals(&acts)], links: vec![], tbl: vec![] });
    v.push(Kind { name: "without-resources", rt: sv(&["sub", "act"]), pt: sv(&["sub", "act"]), g: vec![],
        m: and(eq(r(0), p(0)), eq(r(1), p(1))),
        pvals: vec![sv(&subs), sv(&acts)], rvals: vec![svals(&subs), svals(&acts)], links: vec![], tbl: vec![] });
    let roles = ["alice", "bob", "admin", "staff"];
    let mut glinks = vec![];
    for a in roles { for c in roles { glinks.push(sv(&[a, c])); } }
    v.push(Kind { name: "rbac", rt: sv(&["sub", "obj", "act"]), pt: sv(&["sub", "obj", "act"]), g: vec![(s("g"), 2)],
        m: and(and(Ex::G2(s("g"), b(r(0)), b(p(0))), eq(r(1), p(1))), eq(r(2), p(2))),
        pvals: vec![sv(&["alice", "admin", "staff"]), sv(&objs), sv(&acts)], rvals: vec![svals(&["alice", "bob", "admin"]), svals(&objs), svals(&acts)],
        links: vec![glinks.clone()], tbl: vec![] });
    let mut g2links = vec![];
    for a in ["data1", "data2", "grp"] { for c in ["grp", "data1"] { g2links.push(sv(&[a, c])); } }
    v.push(Kind { name: "resource-roles", rt: sv(&["sub", "obj", "act"]), pt: sv(&["sub", "obj", "act"]), g: vec![(s("g"), 2), (s("g2"), 2)],
        m: and(and(Ex::G2(s("g"), b(r(0)), b(p(0))), Ex::G2(s("g2"), b(r(1)), b(p(1)))), eq(r(2), p(2))),
        pvals: vec![sv(&["alice", "admin"]), sv(&["data1", "grp"]), sv(&acts)], rvals: vec![svals(&["alice", "bob", "admin"]), svals(&["data1", "data2", "grp"]), svals(&acts)],
        links: vec![glinks.clone(), g2links], tbl: vec![] });
    let mut dlinks = vec![];
    for a in ["alice", "bob", "admin"] { for c in ["admin", "staff"] { for d in ["d1", "d2"] { dlinks.push(sv(&[a, c, d])); } } }
    v.push(Kind { name: "domains", rt: sv(&["sub", "dom", "obj", "act"]), pt: sv(&["sub", "dom", "obj", "act"]), g: vec![(s("g"), 3)],
        m: and(and(and(Ex::G3(s("g"), b(r(0)), b(p(0)), b(r(1))), eq(r(1), p(1))), eq(r(2), p(2))), eq(r(3), p(3))),
        pvals: vec![sv(&["alice", "admin", "staff"]), sv(&["d1", "d2"]), sv(&["data1"]), sv(&acts)],
        rvals: vec![svals(&["alice", "bob", "admin"]), svals(&["d1", "d2"]), svals(&["data1"]), svals(&acts)],
        links: vec![dlinks], tbl: vec![] });
    // ABAC: request subject is a map {Name, Age}
    let people = vec![s("m:Name=s:alice&Age=i:20"), s("m:Name=s:bob&Age=i:16"), s("m:Name=s:alice&Age=i:18"), s("m:Age=i:30"), sval("alice")];
    v.push(Kind { name: "abac", rt: sv(&["sub", "obj", "act"]), pt: sv(&["sub", "obj", "act"]), g: vec![],
        m: and(and(and(eq(Ex::Attr(b(r(0)), s("Name")), p(0)), Ex::Cmp("gt", b(Ex::Attr(b(r(0)), s("Age"))), b(Ex::LitI(18)))), eq(r(1), p(1))), eq(r(2), p(2))),
        pvals: vec![sv(&["alice", "bob"]), sv(&objs), sv(&acts)], rvals: vec![people.clone(), svals(&objs), svals(&acts)], links: vec![], tbl: vec![] });
    // "/data/", "/da" and "/" are exactly the text before the star of a stored pattern (the boundary of the prefix rule)
    let paths = ["/data/1", "/data/1/x", "/res/7", "/res", "/other", "/res/7/sub", "/data/é", "/data/", "/da", "/"];
    v.push(Kind { name: "keymatch", rt: sv(&["sub", "obj", "act"]), pt: sv(&["sub", "obj", "act"]), g: vec![],
        m: and(and(eq(r(0), p(0)), Ex::Call2(s("keyMatch"), b(r(1)), b(p(1)))), Ex::Call2(s("regexMatch"), b(r(2)), b(p(2)))),
        pvals: vec![sv(&["alice", "bob"]), sv(&["/data/*", "/res/7", "/*", "/da*"]), sv(&["^GET$", "^.*$", "^P.*T$"])],
        rvals: vec![svals(&["alice", "bob"]), svals(&paths), svals(&["GET", "POST", "PUT"])], links: vec![], tbl: vec![] });
    v.push(Kind { name: "keymatch2", rt: sv(&["sub", "obj", "act"]), pt: sv(&["sub", "obj", "act"]), g: vec![],
        m: and(and(eq(r(0), p(0)), Ex::Call2(s("keyMatch2"), b(r(1)), b(p(1)))), eq(r(2), p(2))),
        pvals: vec![sv(&["alice", "bob"]), sv(&["/data/:id", "/res/:id/sub", "/res/*", "/:a/:b"]), sv(&["GET", "POST"])],
        rvals: vec![svals(&["alice", "bob"]), svals(&paths), svals(&["GET", "POST"])], links: vec![], tbl: vec![] });
    v.push(Kind { name: "keymatch3-4-5", rt: sv(&["sub", "obj", "act"]), pt: sv(&["sub", "obj", "act"]), g: vec![],
        m: and(and(eq(r(0), p(0)), or(or(Ex::Call2(s("keyMatch3"), b(r(1)), b(p(1))), Ex::Call2(s("keyMatch4"), b(r(1)), b(p(1)))), Ex::Call2(s("keyMatch5"), b(r(1)), b(p(1))))), eq(r(2), p(2))),
        // the colon patterns of the keyMatch2 kind appear here too: for these three matchers `:id` is literal text, whatever
        // another matcher made of the same pattern earlier in the process
        pvals: vec![sv(&["alice", "bob"]), sv(&["/data/{id}", "/res/{id}/sub", "/res/*", "/{a}/{a}", "/data/:id", "/res/:id/sub"]), sv(&["GET", "POST"])],
        rvals: vec![svals(&["alice", "bob"]), svals(&["/data/1", "/res/7/sub", "/res/7?x=1", "/a/a", "/a/b", "/other", "/data/:id"]), svals(&["GET", "POST"])], links: vec![], tbl: vec![] });
    // rule-in-policy eval: the first policy field is an expression over the request
    let rule_exprs: Vec<Ex> = vec![
        eq(Ex::Attr(b(r(0)), s("Name")), Ex::LitS(s("alice"))),
        Ex::Cmp("ge", b(Ex::Attr(b(r(0)), s("Age"))), b(Ex::LitI(18))),
        and(Ex::Cmp("lt", b(Ex::Attr(b(r(0)), s("Age"))), b(Ex::LitI(18))), eq(r(2), Ex::LitS(s("read")))),
        Ex::LitB(true),
        Ex::LitI(1),
    ];
    let rt3 = sv(&["sub", "obj", "act"]);
    let mut tbl: Vec<(String, Ex)> = rule_exprs.iter().map(|e| (e.text("r", &rt3, "p", &[]), e.clone())).collect();
    tbl.push((s("r.sub.Age >"), Ex::Unknown)); // does not parse: sentinel handled in emit (sexpr "-")
    v.push(Kind { name: "eval", rt: rt3.clone(), pt: sv(&["sub_rule", "obj", "act"]), g: vec![],
        m: and(and(Ex::EvalP(0), eq(r(1), p(1))), eq(r(2), p(2))),
        pvals: vec![tbl.iter().map(|(t, _)| t.clone()).collect(), sv(&objs), sv(&acts)],
        rvals: vec![people, svals(&objs), svals(&acts)], links: vec![], tbl });
    v
}

pub const EFFECTS: [(&str, &str); 4] = [("allow-override", E_ALLOW), ("deny-override", E_DENY), ("allow-and-deny", E_BOTH), ("priority", E_PRIO)];

/// model definition for a kind under an effect rule, with section suffix `sfx` ("" or "2", "3")
pub fn model_of(k: &Kind, eff: &str, with_eft: bool, sfx: &str, e_spelling_suffixed: bool) -> ModelDef {
    let mut pt = k.pt.clone();
    if with_eft { pt.push("eft".to_string()); }
    let rk = format!("r{}", sfx); let pk = format!("p{}", sfx);
    let etext = if e_spelling_suffixed { eff.replace("p.eft", &format!("{}.eft", pk)) } else { eff.to_string() };
    ModelDef {
        r: vec![(rk.clone(), k.rt.clone())],
        p: vec![(pk.clone(), pt.clone())],
        g: k.g.clone(),
        e: vec![(format!("e{}", sfx), etext)],
        m: vec![(format!("m{}", sfx), k.m.sexpr(), k.m.text(&rk, &k.rt, &pk, &pt))],
        tbl: k.tbl.iter().map(|(t, e)| (t.clone(), if matches!(e, Ex::Unknown) { "-".to_string() } else { e.sexpr() })).collect(),
    }
}

pub fn gen_rule(rng: &mut Rng, k: &Kind, with_eft: bool) -> Vec<String> {
    let mut r: Vec<String> = k.pvals.iter().map(|u| rng.pick(u).clone()).collect();
    // the effect column: mostly allow/deny, sometimes another word, the empty string, a case variant or a blank-edged spelling
    // (all of these are "neither allow nor deny")
    if with_eft { r.push(rng.pick(&["allow", "allow", "allow", "allow", "deny", "deny", "deny", "deny", "other", "other", "", "Allow", "DENY", " allow", "deny "]).to_string()); }
    r
}

/// unusual but valid values: empty, blank-only, blank-edged, case variants, names that coincide with constants of the
/// implementation or with model syntax, separators, multi-byte text, numbers and booleans spelled as strings
pub const ODD: [&str; 27] = ["", "", "", " ", "*", "DEFAULT", "alice ", " alice", "Alice", "ALICE", "a,b", "é", "日本", "p", "g", "eft",
    "allow", "deny", "true", "1", "#", "a#b", "_", "r.sub", "p_sub", "\"q\"", "a b"];

/// kinds whose value columns are plain names (no patterns, regexes, expressions or attribute maps)
pub const PLAIN_KINDS: [&str; 7] = ["acl", "superuser", "without-users", "without-resources", "rbac", "resource-roles", "domains"];

/// the same kind over a universe in which one to three names are replaced by (or joined by) unusual values, consistently in
/// the policy universes, the request universes and the link universes — so rules, links and requests still meet
pub fn spice_kind(rng: &mut Rng, k: &Kind) -> (Kind, Vec<(String, String)>) {
    let mut cands: Vec<String> = vec![];
    for u in &k.pvals { for v in u { if !cands.contains(v) { cands.push(v.clone()); } } }
    for u in &k.links { for l in u { for v in l { if !cands.contains(v) { cands.push(v.clone()); } } } }
    let mut map: Vec<(String, String)> = vec![];
    // domain names (third place of a role link) are preferred targets: the role manager files links per domain
    let doms: Vec<String> = { let mut d = vec![]; for u in &k.links { for l in u { if l.len() == 3 && !d.contains(&l[2]) { d.push(l[2].clone()); } } } d };
    for i in 0..1 + rng.below(3) {
        let from = if i == 0 && !doms.is_empty() && rng.chance(1, 2) { rng.pick(&doms).clone() } else { rng.pick(&cands).clone() };
        let to = if rng.chance(1, 5) { String::new() } else { rng.pick(&ODD).to_string() };
        if map.iter().any(|(f, t)| *f == from || *t == to) || cands.contains(&to) { continue; }
        map.push((from, to));
    }
    let alongside = rng.chance(1, 3);
    (rename_kind(k, &map, alongside), map)
}

/// `k` with every name `from` replaced by `to` (or, with `alongside`, joined by it) in all its universes
pub fn rename_kind(k: &Kind, map: &[(String, String)], alongside: bool) -> Kind {
    let sub = |v: &String| -> Option<String> { map.iter().find(|(f, _)| f == v).map(|(_, t)| t.clone()) };
    let mut k2 = k.clone();
    let spice_u = |u: &Vec<String>, enc: bool| -> Vec<String> {
        let mut out = vec![];
        for v in u {
            let hit = if enc { map.iter().find(|(f, _)| sval(f) == *v).map(|(_, t)| sval(t)) } else { sub(v) };
            match hit { Some(t) => { if alongside { out.push(v.clone()); } out.push(t); } None => out.push(v.clone()) }
        }
        out
    };
    k2.pvals = k.pvals.iter().map(|u| spice_u(u, false)).collect();
    k2.rvals = k.rvals.iter().map(|u| spice_u(u, true)).collect();
    k2.links = k.links.iter().map(|u| {
        let mut out = vec![];
        for l in u {
            let l2: Vec<String> = l.iter().map(|v| sub(v).unwrap_or_else(|| v.clone())).collect();
            if alongside && l2 != *l { out.push(l.clone()); }
            out.push(l2);
        }
        out
    }).collect();
    k2
}

/// all requests: the cross product of the request universes plus "", an out-of-universe value and wrong arities
pub fn requests(k: &Kind) -> Vec<Vec<String>> {
    let mut out: Vec<Vec<String>> = vec![vec![]];
    for u in &k.rvals {
        let mut next = vec![];
        for pre in &out { for x in u { let mut y = pre.clone(); y.push(x.clone()); next.push(y); } }
        out = next;
    }
    let n = k.rt.len();
    out.push(vec![sval(""); n]);
    out.push(vec![sval("zzz"); n]);
    let mut first = out[0].clone(); first[0] = sval(""); out.push(first);
    let mut short = out[0].clone(); short.pop(); out.push(short);
    let mut long = out[0].clone(); long.push(sval("extra")); out.push(long);
    out.push(vec![]);
    // a number and a boolean, each followed by the string spelled the same way (different requests)
    let mut ints = out[0].clone(); ints[0] = "i:1".to_string(); out.push(ints);
    let mut ints_s = out[0].clone(); ints_s[0] = sval("1"); out.push(ints_s);
    let mut bools = out[0].clone(); bools[0] = "b:true".to_string(); out.push(bools);
    let mut bools_s = out[0].clone(); bools_s[0] = sval("true"); out.push(bools_s);
    out
}

pub fn enc_reqs(reqs: &[Vec<String>]) -> String {
    reqs.iter().map(|r| if r.is_empty() { "|".to_string() } else { r.join(",") }).collect::<Vec<_>>().join(";")
}

/// memory-adapter lines for a policy + links
pub fn lines_of(pk: &str, rules: &[Vec<String>], g: &[(String, usize)], links: &[Vec<Vec<String>>]) -> Vec<Vec<String>> {
    let mut lines = vec![];
    for r in rules { let mut l = vec!["p".to_string(), pk.to_string()]; l.extend(r.iter().cloned()); lines.push(l); }
    for (i, (gk, _)) in g.iter().enumerate() {
        for r in &links[i] { let mut l = vec!["g".to_string(), gk.clone()]; l.extend(r.iter().cloned()); lines.push(l); }
    }
    lines
}

pub fn gen_links(rng: &mut Rng, k: &Kind) -> Vec<Vec<Vec<String>>> {
    // now and then a grouping rule carries one field more than its definition has places (the extra field is not part of the
    // link; for a two-place definition it must not be taken for a domain)
    k.links.iter().map(|u| { let n = rng.below(5); (0..n).map(|_| { let mut l = rng.pick(u).clone(); if rng.chance(1, 8) { l.push(rng.pick(&["d1", "x", ""]).to_string()); } l }).collect() }).collect()
}

fn tally(rec: &mut Recorder, out: &str) {
    rec.count_n("decision:granted", out.bytes().filter(|&c| c == b't').count() as u64);
    rec.count_n("decision:denied", out.bytes().filter(|&c| c == b'f').count() as u64);
    rec.count_n("decision:error", out.bytes().filter(|&c| c == b'e').count() as u64);
    rec.count_n("decision:panic", out.bytes().filter(|&c| c == b'p').count() as u64);
}

pub fn run(rec: &mut Recorder, w: &mut World, tier: &str, seed: u64) {
    let mut rng = Rng::new(seed);
    let ks = kinds();
    let per = (if tier == "thorough" { 400 } else { 40 }) * rec.budget as usize;
    // ---- the documented model kinds x the four effect rules ----
    for k in &ks {
        let reqs = requests(k);
        let reqf = enc_reqs(&reqs);
        for (ename, eff) in EFFECTS.iter() {
            for it in 0..per {
                let with_eft = *ename != "allow-override" || rng.chance(1, 3);
                // every fourth configuration is asked through enforce_with_context("2") on a copy of the sections under
                // r2/p2/e2/m2 holding the rules (the reference semantics are the same)
                let ctx = it % 4 == 3 && k.name != "eval";
                // ... and in half of those the plain sections carry *another* effect rule than the suffixed ones: the decision is
                // that of the sections the context names (e2), whatever `e` says
                let plain_eff = if ctx && rng.chance(1, 2) { rec.count("asked-through:enforce_with_context:plain-effect-differs"); let o = EFFECTS[(EFFECTS.iter().position(|x| x.1 == *eff).unwrap() + 1 + rng.below(3)) % 4].1; o } else { *eff };
                let mut m = model_of(k, plain_eff, with_eft, "", false);
                if ctx { let b2 = model_of(k, eff, with_eft, "2", rng.chance(1, 2)); m.r.extend(b2.r); m.p.extend(b2.p); m.e.extend(b2.e); m.m.extend(b2.m); rec.count("asked-through:enforce_with_context"); }
                // now and then the effect column is not the last one: a further column follows it
                let note = with_eft && rng.chance(1, 5);
                if note { for pd in m.p.iter_mut() { pd.1.push("note".to_string()); } rec.count("policy-definition:column-after-eft"); }
                let n = match rng.below(10) { 0 => 0, 1..=3 => 1, 4..=6 => 2, 7 | 8 => 3, _ => 4 + rng.below(27) };
                let mut rules: Vec<Vec<String>> = vec![];
                for _ in 0..n { let mut r = gen_rule(&mut rng, k, with_eft); if note { r.push(rng.pick(&["n1", "allow", "deny", ""]).to_string()); } if !rules.contains(&r) { rules.push(r); } }
                // occasionally a malformed stored rule (wrong length): must be an error when reached
                if rng.chance(1, 10) && !rules.is_empty() { let i = rng.below(rules.len()); if rng.chance(1, 2) { rules[i].pop(); } else { rules[i].push("allow".to_string()); } rec.count("policy:malformed-rule"); }
                let links = gen_links(&mut rng, k);
                rec.begin();
                let lines = lines_of(if ctx { "p2" } else { "p" }, &rules, &k.g, &links);
                let r0 = new_enforcer(rec, w, &m, "memory", &lines, "", false);
                if r0 != "ok" { rec.count("new:failed"); continue; }
                let out = rec.exec(w, &if ctx { format!("e.enfcs\t2\t{}", reqf) } else { format!("e.enfs\t{}", reqf) });
                tally(rec, &out);
                if out.contains('p') { rec.fail("enforce-panicked", format!("kind {} effect {}: a request made enforce panic: {}", k.name, ename, out)); }
                rec.count(&format!("kind:{}", k.name));
                rec.count(&format!("effect:{}", ename));
                rec.count(if rules.is_empty() { "policy:empty" } else { "policy:non-empty" });
                rec.nontrivial_case(&format!("{}|{}|{:?}|{:?}", k.name, ename, rules, links));
                if it == 0 && *ename == "priority" { rec.sample(format!("kind={} effect={} matcher={} rules={:?} links={:?} -> {}", k.name, ename, m.m[0].2, rules, links, out)); }
            }
        }
    }
    // ---- the plain-name kinds over universes with unusual values (empty, blank-edged, "*", "DEFAULT", case variants, …) ----
    for k0 in ks.iter().filter(|k| PLAIN_KINDS.contains(&k.name)) {
        for (ename, eff) in EFFECTS.iter() {
            for _ in 0..per {
                let (k, map) = spice_kind(&mut rng, k0);
                let reqf = enc_reqs(&requests(&k));
                let with_eft = *ename != "allow-override" || rng.chance(1, 2);
                let m = model_of(&k, eff, with_eft, "", false);
                let n = match rng.below(8) { 0 => 1, 1..=3 => 2, 4 | 5 => 3, _ => 4 + rng.below(12) };
                let mut rules: Vec<Vec<String>> = vec![];
                for _ in 0..n { let r = gen_rule(&mut rng, &k, with_eft); if !rules.contains(&r) { rules.push(r); } }
                let links = gen_links(&mut rng, &k);
                rec.begin();
                let lines = lines_of("p", &rules, &k.g, &links);
                if new_enforcer(rec, w, &m, "memory", &lines, "", false) != "ok" { rec.count("new:failed"); continue; }
                let out = rec.exec(w, &format!("e.enfs\t{}", reqf));
                tally(rec, &out);
                if out.contains('p') { rec.fail("enforce-panicked", format!("kind {} effect {} with values {:?}: a request made enforce panic: {}", k.name, ename, map, out)); }
                rec.count(&format!("kind:{}", k.name));
                rec.count("universe:unusual-values");
                for (_, t) in &map { rec.count(&format!("unusual-value:{:?}", t)); }
                rec.nontrivial_case(&format!("odd|{}|{}|{:?}|{:?}|{:?}", k.name, ename, map, rules, links));
            }
        }
    }
    // ---- role chains around the hierarchy limit of the enforcer's role manager (10): the decision follows g() as the role
    //      manager answers it, a chain of exactly / one more / one less than the limit included ----
    {
        let rb = ks.iter().find(|k| k.name == "rbac").unwrap().clone();
        let m = model_of(&rb, E_ALLOW, false, "", false);
        for len in 7..=17usize {
            // 0: plain chain; 1: a role reached along two paths; 2: a link back to a role already visited; 3: both
            for shortcut in 0..4usize {
                let mut lines: Vec<Vec<String>> = vec![sv(&["p", "p", &format!("u{}", len), "data1", "read"]), sv(&["p", "p", "u3", "data2", "read"])];
                for i in 0..len { lines.push(sv(&["g", "g", &format!("u{}", i), &format!("u{}", i + 1)])); }
                if shortcut & 1 == 1 { lines.push(sv(&["g", "g", "u1", "u4"])); }
                if shortcut & 2 == 2 { lines.push(sv(&["g", "g", "u2", "u0"])); }
                rec.begin();
                if new_enforcer(rec, w, &m, "memory", &lines, "", false) != "ok" { rec.count("new:failed"); continue; }
                let mut reqs: Vec<Vec<String>> = vec![];
                for i in 0..=len { for o in ["data1", "data2"] { reqs.push(vec![sval(&format!("u{}", i)), sval(o), sval("read")]); } }
                let out = rec.exec(w, &format!("e.enfs\t{}", enc_reqs(&reqs)));
                tally(rec, &out);
                rec.count("kind:rbac-deep-chain");
                rec.nontrivial_case(&format!("chain|{}|{}", len, shortcut));
            }
        }
    }
    // ---- decisions after the role graph was rebuilt or handed over: a reload or clear that leaves no role link at all (with the
    //      role's permission stored again), and a role manager installed while links are built by hand ----
    {
        let rb = ks.iter().find(|k| k.name == "rbac").unwrap().clone();
        let m = model_of(&rb, E_ALLOW, false, "", false);
        let reqs: Vec<Vec<String>> = ["alice", "bob", "admin"].iter().flat_map(|s| ["data1", "data2"].iter().map(move |o| vec![sval(s), sval(o), sval("read")])).collect();
        let reqf = enc_reqs(&reqs);
        let start = vec![sv(&["p", "p", "admin", "data1", "read"]), sv(&["p", "p", "bob", "data2", "read"]), sv(&["g", "g", "alice", "admin"])];
        for variant in 0..5usize {
            rec.begin();
            if new_enforcer(rec, w, &m, "memory", &start, "", false) != "ok" { rec.count("new:failed"); continue; }
            let out = rec.exec(w, &format!("e.enfs\t{}", reqf)); tally(rec, &out);
            match variant {
                0 => { rec.exec(w, "e.clear"); rec.exec(w, &MOp::Add("p".into(), "p".into(), sv(&["admin", "data1", "read"])).line()); }
                1 => { rec.exec(w, &format!("e.setadapter\tmemory\t{}\t", enc_lists(&[sv(&["p", "p", "admin", "data1", "read"])]))); }
                2 => { rec.exec(w, "e.auto\tbuild\tfalse"); rec.exec(w, &MOp::Rm("g".into(), "g".into(), sv(&["alice", "admin"])).line()); rec.exec(w, "e.build"); }
                _ => {
                    rec.exec(w, "e.auto\tbuild\tfalse"); rec.exec(w, "e.setrm"); rec.exec(w, "e.build");
                    let out = rec.exec(w, &format!("e.enfs\t{}", reqf)); tally(rec, &out);
                    rec.exec(w, &MOp::Rm("g".into(), "g".into(), sv(&["alice", "admin"])).line());
                    rec.exec(w, &MOp::Add("g".into(), "g".into(), sv(&["bob", "admin"])).line());
                    rec.exec(w, "e.build");
                    if variant == 4 { let out = rec.exec(w, &format!("e.enfs\t{}", reqf)); tally(rec, &out);
                        rec.exec(w, "e.auto\tbuild\ttrue"); rec.exec(w, &MOp::Add("g".into(), "g".into(), sv(&["alice", "admin"])).line()); }
                }
            }
            let out = rec.exec(w, &format!("e.enfs\t{}", reqf)); tally(rec, &out);
            rec.count("kind:rbac-after-rebuild-or-handover");
            rec.nontrivial_case(&format!("rebuilt|{}", variant));
        }
    }
    // ---- seeded random matcher expressions ----
    let n_rand = (if tier == "thorough" { 6000 } else { 1200 }) * rec.budget as usize;
    let base = &ks[4]; // rbac universes
    let lits = ["alice", "admin", "data1", "read", "/data/*", "root", ""];
    for it in 0..n_rand {
        let gdefs: Vec<(String, usize)> = match rng.below(4) { 0 => vec![], 1 => vec![(s("g"), 2)], 2 => vec![(s("g"), 2), (s("g2"), 2)], _ => vec![(s("g"), 3)] };
        let ctx = GenCtx { nr: 3, np: 3, gdefs: &gdefs, lits: &lits, allow_neg: true };
        let depth = 1 + rng.below(4);
        let ex = gen_bool(&mut rng, &ctx, depth);
        let mut opsv = vec![]; ex.ops(&mut opsv);
        for o in opsv { rec.count(&format!("matcher-op:{}", o)); }
        let (ename, eff) = EFFECTS[rng.below(4)];
        let with_eft = rng.chance(2, 3);
        let mut k = base.clone();
        k.g = gdefs.clone();
        k.m = ex;
        k.pvals = vec![sv(&["alice", "admin", "staff", "/data/*", "/res/:id"]), sv(&["data1", "data2", "/data/1"]), sv(&["read", "write"])];
        k.rvals = vec![svals(&["alice", "bob", "admin"]), svals(&["data1", "/data/1"]), svals(&["read", "write"])];
        k.links = gdefs.iter().map(|(_, ar)| {
            let mut u = vec![];
            for a in ["alice", "bob", "admin", "data1"] { for c in ["admin", "staff", "data1"] { if *ar == 2 { u.push(sv(&[a, c])) } else { u.push(sv(&[a, c, "data1"])); u.push(sv(&[a, c, "d1"])) } } }
            u
        }).collect();
        let m = model_of(&k, eff, with_eft, "", false);
        let n = rng.below(5);
        let mut rules: Vec<Vec<String>> = vec![];
        for _ in 0..n { let r = gen_rule(&mut rng, &k, with_eft); if !rules.contains(&r) { rules.push(r); } }
        let links = gen_links(&mut rng, &k);
        rec.begin();
        let lines = lines_of("p", &rules, &k.g, &links);
        let r0 = new_enforcer(rec, w, &m, "memory", &lines, "", false);
        if r0 != "ok" { rec.count("new:failed"); continue; }
        let out = rec.exec(w, &format!("e.enfs\t{}", enc_reqs(&requests(&k))));
        tally(rec, &out);
        if out.contains('p') { rec.fail("enforce-panicked", format!("random matcher {}: enforce panicked: {}", m.m[0].2, out)); }
        rec.count("kind:random-matcher");
        rec.count(&format!("effect:{}", ename));
        rec.nontrivial_case(&format!("rand|{}|{}|{:?}|{:?}", m.m[0].2, ename, rules, links));
        if it < 3 { rec.sample(format!("random matcher={} effect={} rules={:?} links={:?} -> {}", m.m[0].2, ename, rules, links, out)); }
    }
}
