//! C09 — stored policy and in-memory policy stay identical.
use crate::c04::observe;
use crate::interp::World;
use crate::mgmt::*;
use crate::proto::*;

/// values the CSV reader can carry: commas (quoted on save), multi-byte, interior blanks, '#' not first
const SAFE: [&str; 17] = ["alice", "a,b", "x, y", "d é", "中文", "a#b", "r.sub == 1", "/p/:id", "k=v", "(x)", "a;b|c", "it's",
    // commas together with multi-byte text (the value is written quoted), a lone comma, names that look like syntax
    "é, b", "a,é", "日,本", ",", "p"];

pub fn run(rec: &mut Recorder, w: &mut World, tier: &str, seed: u64) {
    let mut rng = Rng::new(seed);
    let m = priority_rbac();
    let u = small_universe();
    // ---- (a) management histories with auto-save over MemoryAdapter: reload == current after every call ----
    let n_hist = (if tier == "thorough" { 1500 } else { 150 }) * rec.budget as usize;
    let maxlen = if tier == "thorough" { 120 } else { 40 };
    let alpha = alphabet(&u);
    // exhaustive length <= 2 over the C04 alphabet
    let mut hists: Vec<Vec<MOp>> = vec![];
    for a in &alpha { hists.push(vec![a.clone()]); for b2 in &alpha { hists.push(vec![a.clone(), b2.clone()]); } }
    let n_ex = hists.len();
    for hi in 0..n_hist {
        let len = 1 + rng.below(maxlen);
        let mut h: Vec<MOp> = (0..len).map(|_| random_op(&mut rng, &u)).collect();
        // every sixth history adds, somewhere, a grouping rule with fewer fields than its definition has places: the adapter
        // and the model take it, the link step refuses it (the call reports an error) - store and memory must still agree
        if hi % 6 == 5 { let at = rng.below(h.len() + 1); h.insert(at, MOp::Add("g".into(), "g".into(), sv(&[*rng.pick(&["bob", "alice", "zed"])]))); }
        hists.push(h);
    }
    for (hi, hist) in hists.iter().enumerate() {
        rec.begin();
        new_enforcer(rec, w, &m, "memory", &[], "", false);
        let mut descr = vec![];
        for (i, op) in hist.iter().enumerate() {
            // a rejected call in between: the adapter refuses / errs
            if hi >= n_ex && rng.chance(1, 12) {
                let rop = random_op(&mut rng, &u);
                rec.exec(w, &format!("e.fault\t{}", fault_plan(&rop, *rng.pick(&["err", "refuse"]))));
                rec.exec(w, &rop.line());
                rec.exec(w, "e.fault\t-");
                rec.count("op:rejected-call");
            }
            let out = rec.exec(w, &op.line());
            descr.push(op.line().replace('\t', " "));
            rec.count(&format!("op:{}", op.kind()));
            if hi < n_ex && i + 1 < hist.len() { continue; }
            let cur = rec.exec(w, "e.pol");
            let stored = rec.exec(w, "e.reload");
            if cur != stored {
                rec.fail("reload-differs", format!("after {} (-> {}): in memory {} but the adapter reloads as {}", descr.join(" ; "), out, cur, stored));
                break;
            }
            rec.count("reload:identical");
        }
        // finally the real load_policy on the enforcer: store, order and decisions unchanged
        let refs = RefStore::of_model(&m);
        let before = observe(rec, w, &u, &refs, false);
        let r = rec.exec(w, "e.load");
        let after = observe(rec, w, &u, &refs, false);
        // with an unlinkable grouping rule stored, the reload's link step fails and the previous state is restored (C10)
        let unlinkable = hist.iter().any(|o| matches!(o, MOp::Add(sec, _, r) if sec == "g" && r.len() < 2));
        if unlinkable { rec.count("history:with-unlinkable-grouping-rule"); }
        // (the links in force before depend on the order in which the calls built them, the restored ones on the stored order -
        //  see DESIGN 11.6 on C10: with such a rule stored only the rules are compared)
        if (r != "ok" && !(unlinkable && r.starts_with("err"))) || before.pol != after.pol || (!unlinkable && before.dec != after.dec) {
            rec.fail("load-policy-not-identity", format!("after {}: load_policy -> {} changed {} / {} into {} / {}", descr.join(" ; "), r, before.pol, before.dec, after.pol, after.dec));
        }
        rec.nontrivial_case(&format!("a|{}", descr.join("|")));
        if hi == n_ex || hi == 7 { rec.sample(format!("auto-save history: {}", descr.iter().take(6).cloned().collect::<Vec<_>>().join(" ; "))); }
    }
    rec.count_n("histories:exhaustive", n_ex as u64);
    rec.count_n("histories:random", n_hist as u64);
    // ---- (b) save_policy + load_policy is the identity, for every bundled adapter ----
    let n_rt = (if tier == "thorough" { 3000 } else { 300 }) * rec.budget as usize;
    for ri in 0..n_rt {
        let kind = *rng.pick(&["file", "string", "memory"]);
        rec.begin();
        new_enforcer(rec, w, &m, kind, &[], "", false);
        rec.exec(w, "e.auto\tsave\tfalse");
        let np = rng.below(7); let ng = rng.below(4);
        let mut descr = vec![];
        let mut redo: Vec<String> = vec![];
        for _ in 0..np {
            let r: Vec<String> = vec![rng.pick(&SAFE).to_string(), rng.pick(&SAFE).to_string(), rng.pick(&["read", "a,b"]).to_string(), rng.pick(&["allow", "deny"]).to_string()];
            let pt = if rng.chance(1, 4) { "p2" } else { "p" };
            rec.exec(w, &MOp::Add("p".into(), pt.into(), r.clone()).line());
            redo.push(MOp::Add("p".into(), pt.into(), r.clone()).line());
            descr.push(format!("{} {:?}", pt, r));
            if r.iter().any(|f| f.contains(',')) { rec.count("value:has-comma"); }
            if r.iter().any(|f| !f.is_ascii()) { rec.count("value:multi-byte"); }
        }
        for _ in 0..ng {
            let r: Vec<String> = vec![rng.pick(&SAFE).to_string(), rng.pick(&SAFE).to_string()];
            let gt = if rng.chance(1, 4) { "g2" } else { "g" };
            rec.exec(w, &MOp::Add("g".into(), gt.into(), r.clone()).line());
            redo.push(MOp::Add("g".into(), gt.into(), r.clone()).line());
            descr.push(format!("{} {:?}", gt, r));
        }
        let before = rec.exec(w, "e.pol");
        let reqs: Vec<Vec<String>> = SAFE.iter().take(6).map(|s| sv(&[s, SAFE[1], "read"])).collect();
        let dec_before = rec.exec(w, &format!("e.enfs\t{}", reqs_field(&reqs)));
        let s1 = rec.exec(w, "e.save");
        let l1 = rec.exec(w, "e.load");
        let after = rec.exec(w, "e.pol");
        let dec_after = rec.exec(w, &format!("e.enfs\t{}", reqs_field(&reqs)));
        if s1 != "ok" || l1 != "ok" || before != after || dec_before != dec_after {
            rec.fail("save-load-not-identity", format!("[{}] save -> {}, load -> {}: {} became {} (decisions {} -> {})", kind, s1, l1, before, after, dec_before, dec_after));
        }
        // the same content saved a second time after the storage was emptied in between: clear_policy with auto-save on (the
        // storage is cleared too), the very same rules added again in the same order, save, load — everything is there again
        if kind != "string" && !redo.is_empty() && rng.chance(1, 3) {
            rec.exec(w, "e.auto\tsave\ttrue");
            let c = rec.exec(w, "e.clear");
            for l in &redo { rec.exec(w, l); }
            let before3 = rec.exec(w, "e.pol");
            let (s3, l3) = (rec.exec(w, "e.save"), rec.exec(w, "e.load"));
            let after3 = rec.exec(w, "e.pol");
            if c != "ok" || s3 != "ok" || l3 != "ok" || before3 != after3 || before3 != before {
                rec.fail("save-load-not-identity", format!("[{}] clear_policy (auto-save on) -> {}, same rules added again, save -> {}, load -> {}: {} became {} (first time: {})", kind, c, s3, l3, before3, after3, before));
            }
            rec.exec(w, "e.auto\tsave\tfalse");
            rec.count("roundtrip-same-content-after-clear");
        }
        // a second save over the now non-empty storage: after emptying the policy in memory (auto-save is off, the storage
        // still holds the rules), or after taking away one policy type's rules — what is stored afterwards is what is held
        if rng.chance(1, 2) {
            let how = if rng.chance(1, 2) { rec.exec(w, "e.clear"); "clear_policy" } else { rec.exec(w, &MOp::RmF("p".into(), "p".into(), 2, sv(&["read"])).line()); rec.exec(w, &MOp::RmF("p".into(), "p".into(), 2, sv(&["a,b"])).line()); "remove every p rule" };
            let before2 = rec.exec(w, "e.pol");
            let s2 = rec.exec(w, "e.save");
            let l2 = rec.exec(w, "e.load");
            let after2 = rec.exec(w, "e.pol");
            if s2 != "ok" || l2 != "ok" || before2 != after2 {
                rec.fail("save-load-not-identity", format!("[{}] after {} with auto-save off: save -> {}, load -> {}: {} became {}", kind, how, s2, l2, before2, after2));
            }
            rec.count(&format!("roundtrip-second-save:{}", if before2 == "- -" { "empty-policy" } else { "smaller-policy" }));
        }
        rec.count(&format!("roundtrip:{}", kind));
        rec.nontrivial_case(&format!("b|{}|{}", kind, descr.join("|")));
        if ri < 2 { rec.sample(format!("round trip {}: {}", kind, descr.join(" ; "))); }
    }
}
