//! C17 — context-qualified enforcement equals plain enforcement.
use crate::c01::*;
use crate::interp::World;
use crate::mgmt::*;
use crate::proto::*;

pub fn run(rec: &mut Recorder, w: &mut World, tier: &str, seed: u64) {
    let mut rng = Rng::new(seed);
    let ks = kinds();
    let per = (if tier == "thorough" { 150 } else { 10 }) * rec.budget as usize;
    // every kind as documented, then the plain-name kinds once more over universes with unusual values
    let mut spiced: Vec<Kind> = vec![];
    for k0 in ks.iter().filter(|k| PLAIN_KINDS.contains(&k.name)) { let (k, _) = spice_kind(&mut rng, k0); spiced.push(k); }
    for k in ks.iter().chain(spiced.iter()) {
        let reqs = requests(k);
        let reqf = enc_reqs(&reqs);
        let k_plain = k;
        let (reqs_plain, reqf_plain) = (reqs, reqf);
        // on the cached runs of the plain-name kinds two subjects are called "1" and "true": the typed requests 1 / true and
        // the strings spelled the same way then differ in their decisions
        let k_typed = if PLAIN_KINDS.contains(&k.name) { rename_kind(k, &[("alice".to_string(), "1".to_string()), ("bob".to_string(), "true".to_string())], false) } else { k.clone() };
        let reqs_typed = requests(&k_typed);
        let reqf_typed = enc_reqs(&reqs_typed);
        for (ename, eff) in EFFECTS.iter() {
            for it in 0..per {
                let typed = it % 4 == 3;
                let (k, reqs, reqf) = if typed { (&k_typed, &reqs_typed, &reqf_typed) } else { (k_plain, &reqs_plain, &reqf_plain) };
                let sfx = *rng.pick(&["2", "3"]);
                let with_eft = *ename != "allow-override" || rng.chance(1, 2);
                let spelled = rng.chance(1, 2); // e2 written with p2.eft instead of p.eft
                // one model holding both the unsuffixed sections and their suffixed copies
                let a = model_of(k, eff, with_eft, "", false);
                let bsec = model_of(k, eff, with_eft, sfx, spelled);
                let mut m = a.clone();
                // sections are loaded as r, r2, r3 … up to the first gap: suffix 3 needs the 2-copies too
                if sfx == "3" {
                    let mid = model_of(k, eff, with_eft, "2", spelled);
                    m.r.extend(mid.r.clone()); m.p.extend(mid.p.clone()); m.e.extend(mid.e.clone()); m.m.extend(mid.m.clone());
                }
                m.r.extend(bsec.r.clone()); m.p.extend(bsec.p.clone()); m.e.extend(bsec.e.clone()); m.m.extend(bsec.m.clone());
                let n = match rng.below(8) { 0 => 0, 1..=3 => 1, 4 | 5 => 2, 6 => 3, _ => 4 + rng.below(10) };
                let mut rules: Vec<Vec<String>> = vec![];
                for _ in 0..n { let r = gen_rule(&mut rng, k, with_eft); if !rules.contains(&r) { rules.push(r); } }
                if rng.chance(1, 8) && !rules.is_empty() { let i = rng.below(rules.len()); if rng.chance(1, 2) { rules[i].pop(); } else { rules[i].push("extra".to_string()); } rec.count("policy:malformed-rule"); }
                let links = gen_links(&mut rng, k);
                rec.begin();
                let simple = !typed && k.name != "eval" && PLAIN_KINDS.contains(&k.name) && ks.iter().any(|k0| std::ptr::eq(k0, k_plain));
                // (B) one enforcer holding the rules under p; the same rules are then added one by one under p<k> (the model keeps
                //     both section sets, and both policy types may well hold the same rules)
                if it % 6 == 4 && k.name != "eval" {
                    if new_enforcer(rec, w, &m, "memory", &lines_of("p", &rules, &k.g, &links), "", false) != "ok" { rec.count("new:failed"); continue; }
                    let plain = rec.exec(w, &format!("e.enfs\t{}", reqf));
                    for r in &rules { rec.exec(w, &MOp::Add("p".into(), format!("p{}", sfx), r.clone()).line()); }
                    let ctx = rec.exec(w, &format!("e.enfcs\t{}\t{}", sfx, reqf));
                    if plain != ctx {
                        let i = plain.bytes().zip(ctx.bytes()).position(|(x, y)| x != y).unwrap_or(0);
                        rec.fail("context-differs", format!("[{} {} suffix {}; rules under p, then added one by one under p{}] request {:?}: plain {} context {} (rules {:?})", k.name, ename, sfx, sfx, reqs[i], &plain[i..i + 1], &ctx[i..i + 1], rules));
                    }
                    rec.count("setup:rules-added-under-both-types");
                    rec.nontrivial_case(&format!("B|{}|{}|{}|{:?}|{:?}", k.name, ename, sfx, rules, links));
                    continue;
                }
                // (C) both sides filled by a filtered load from a file / string / memory adapter (the policy filter names the first
                //     value of a stored rule): the filter applies to p<k> lines as it does to p lines
                if it % 6 == 5 && simple && !rules.is_empty() {
                    let kind = *rng.pick(&["string", "file", "memory"]);
                    let fp = vec![rules[rng.below(rules.len())][0].clone()];
                    let mut outs = vec![];
                    for pk in ["p".to_string(), format!("p{}", sfx)] {
                        let lines = lines_of(&pk, &rules, &k.g, &links);
                        let (mem, text) = crate::c12::content(kind, &lines, &mut rng);
                        if new_enforcer(rec, w, &m, kind, &mem, &text, false) != "ok" { rec.count("new:failed"); outs.push("new failed".to_string()); continue; }
                        rec.exec(w, &format!("e.loadf\t{}\t{}", enc_list(&fp), enc_list(&Vec::<String>::new())));
                        outs.push(if pk == "p" { rec.exec(w, &format!("e.enfs\t{}", reqf)) } else { rec.exec(w, &format!("e.enfcs\t{}\t{}", sfx, reqf)) });
                    }
                    if outs[0] != outs[1] {
                        rec.fail("context-differs", format!("[{} {} suffix {}; both sides filled by load_filtered_policy(p: {:?}) from a {} adapter] plain {} context {} (rules {:?})", k.name, ename, sfx, fp, kind, outs[0], outs[1], rules));
                    }
                    rec.count(&format!("setup:filtered-load:{}", kind));
                    rec.nontrivial_case(&format!("C|{}|{}|{}|{:?}|{:?}|{:?}", k.name, ename, sfx, fp, rules, links));
                    continue;
                }
                // every fourth comparison on a CachedEnforcer (both sides): what a caller observes must not depend on it
                let cached = it % 4 == 3;
                if cached { rec.exec(w, "e.cached\ttrue"); rec.count("enforcer:cached"); }
                // plain: rules under p
                if new_enforcer(rec, w, &m, "memory", &lines_of("p", &rules, &k.g, &links), "", false) != "ok" { rec.count("new:failed"); if cached { rec.exec(w, "e.cached\tfalse"); } continue; }
                let plain = rec.exec(w, &format!("e.enfs\t{}", reqf));
                // on the cached runs a rule is then added (or the first one removed) through the management API and the requests are
                // asked again - on the context side the same edit goes to p<k>: an answer given before the edit must not outlive it
                let edit: Option<(bool, Vec<String>)> = if cached && k.name != "eval" {
                    if !rules.is_empty() && rng.chance(1, 3) { Some((false, rules[0].clone())) } else { Some((true, gen_rule(&mut rng, k, with_eft))) }
                } else { None };
                let edit_line = |pk: &str, e: &(bool, Vec<String>)| if e.0 { MOp::Add("p".into(), pk.to_string(), e.1.clone()).line() } else { MOp::Rm("p".into(), pk.to_string(), e.1.clone()).line() };
                let plain2 = edit.as_ref().map(|e| { rec.exec(w, &edit_line("p", e)); rec.exec(w, &format!("e.enfs\t{}", reqf)) });
                // context: the same rules under p<k> (rule-in-policy texts name the renamed request tokens)
                let ctx_rules: Vec<Vec<String>> = if k.name == "eval" {
                    rules.iter().map(|r| { let mut x = r.clone(); if !x.is_empty() { x[0] = x[0].replace("r.", &format!("r{}.", sfx)); } x }).collect()
                } else { rules.clone() };
                if k.name == "eval" {
                    let extra: Vec<(String, String)> = m.tbl.iter().map(|(t, sx)| (t.replace("r.", &format!("r{}.", sfx)), sx.clone())).collect();
                    m.tbl.extend(extra);
                }
                new_enforcer(rec, w, &m, "memory", &lines_of(&format!("p{}", sfx), &ctx_rules, &k.g, &links), "", false);
                let mut ctx = rec.exec(w, &format!("e.enfcs\t{}\t{}", sfx, reqf));
                // on the cached runs enforcement is then switched off, the requests asked again (all granted), and switched on:
                // the context answers must be the plain ones again
                if cached && it % 8 == 7 {
                    rec.exec(w, "e.auto\tenforce\tfalse");
                    let _ = rec.exec(w, &format!("e.enfcs\t{}\t{}", sfx, reqf));
                    rec.exec(w, "e.auto\tenforce\ttrue");
                    ctx = rec.exec(w, &format!("e.enfcs\t{}\t{}", sfx, reqf));
                    rec.count("enforcer:cached-enable-window");
                }
                if let (Some(e), Some(p2)) = (edit.as_ref(), plain2.as_ref()) {
                    rec.exec(w, &edit_line(&format!("p{}", sfx), e));
                    let ctx2 = rec.exec(w, &format!("e.enfcs\t{}\t{}", sfx, reqf));
                    rec.count("enforcer:cached-edit-then-ask-again");
                    if *p2 != ctx2 {
                        let i = p2.bytes().zip(ctx2.bytes()).position(|(x, y)| x != y).unwrap_or(0);
                        rec.fail("context-differs", format!("[{} {} suffix {}; cached, after {} {:?} on both sides] request {:?}: plain {} context {} (rules {:?})", k.name, ename, sfx, if e.0 { "adding" } else { "removing" }, e.1, reqs[i], &p2[i..i + 1], &ctx2[i..i + 1], rules));
                    }
                }
                if cached { rec.exec(w, "e.cached\tfalse"); }
                if plain != ctx {
                    let i = plain.bytes().zip(ctx.bytes()).position(|(x, y)| x != y).unwrap_or(0);
                    rec.fail("context-differs", format!("[{} {} suffix {} e-spelled-suffixed={}] request {:?}: plain {} context {} (rules {:?})", k.name, ename, sfx, spelled, reqs[i], &plain[i..i + 1], &ctx[i..i + 1], rules));
                }
                rec.count(&format!("kind:{}", k.name)); rec.count(&format!("effect:{}", ename));
                rec.count(if rules.is_empty() { "policy:empty" } else { "policy:non-empty" });
                if rules.iter().any(|r| with_eft && r.last().map(|x| x == "deny").unwrap_or(false)) { rec.count("policy:has-deny-rule"); }
                rec.count_n("decision:granted", plain.bytes().filter(|&c| c == b't').count() as u64);
                rec.count_n("decision:error", plain.bytes().filter(|&c| c == b'e').count() as u64);
                rec.nontrivial_case(&format!("{}|{}|{}|{:?}|{:?}", k.name, ename, sfx, rules, links));
                if it == 0 && *ename == "deny-override" { rec.sample(format!("kind={} suffix={} m{}={} rules={:?} plain={} ctx={}", k.name, sfx, sfx, bsec.m[0].2, rules, plain, ctx)); }
            }
        }
    }
}
