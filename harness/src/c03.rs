//! C03 — role manager: histories of add_link / delete_link / clear vs reachability.
use crate::interp::World;
use crate::proto::*;
use std::collections::{BTreeMap, BTreeSet, VecDeque};

/// independent reference: one link set per domain (None == "DEFAULT")
#[derive(Default, Clone)]
pub struct RefLinks {
    pub doms: BTreeMap<String, BTreeSet<(String, String)>>,
}

fn dkey(d: &Option<String>) -> String {
    d.clone().unwrap_or_else(|| "DEFAULT".to_string())
}

impl RefLinks {
    pub fn add(&mut self, a: &str, b: &str, d: &Option<String>) {
        if a != b {
            self.doms.entry(dkey(d)).or_default().insert((a.to_string(), b.to_string()));
        }
    }
    pub fn del(&mut self, a: &str, b: &str, d: &Option<String>) {
        if let Some(s) = self.doms.get_mut(&dkey(d)) {
            s.remove(&(a.to_string(), b.to_string()));
        }
    }
    pub fn clear(&mut self) {
        self.doms.clear();
    }
    /// shortest number of links from a to b in domain d (None if unreachable); 0 if a == b
    pub fn dist(&self, a: &str, b: &str, d: &Option<String>) -> Option<usize> {
        if a == b {
            return Some(0);
        }
        let s = self.doms.get(&dkey(d))?;
        let mut seen: BTreeSet<&str> = BTreeSet::new();
        let mut q: VecDeque<(&str, usize)> = VecDeque::new();
        seen.insert(a);
        q.push_back((a, 0));
        while let Some((u, k)) = q.pop_front() {
            for (x, y) in s.iter() {
                if x == u && seen.insert(y) {
                    if y == b {
                        return Some(k + 1);
                    }
                    q.push_back((y, k + 1));
                }
            }
        }
        None
    }
    pub fn roles(&self, a: &str, d: &Option<String>) -> Vec<String> {
        self.doms.get(&dkey(d)).map(|s| s.iter().filter(|(x, _)| x == a).map(|(_, y)| y.clone()).collect::<BTreeSet<_>>().into_iter().collect()).unwrap_or_default()
    }
    pub fn users(&self, a: &str, d: &Option<String>) -> Vec<String> {
        self.doms.get(&dkey(d)).map(|s| s.iter().filter(|(_, y)| y == a).map(|(x, _)| x.clone()).collect::<BTreeSet<_>>().into_iter().collect()).unwrap_or_default()
    }
}

fn dom_s(d: &Option<String>) -> String {
    match d { None => "-".to_string(), Some(x) => esc(x) }
}

#[derive(Clone, Debug)]
pub enum Op {
    Add(String, String, Option<String>),
    Del(String, String, Option<String>),
    Clear,
}

impl Op {
    pub fn line(&self) -> String {
        match self {
            Op::Add(a, b, d) => format!("rm.add\t{}\t{}\t{}", esc(a), esc(b), dom_s(d)),
            Op::Del(a, b, d) => format!("rm.del\t{}\t{}\t{}", esc(a), esc(b), dom_s(d)),
            Op::Clear => "rm.clear".to_string(),
        }
    }
}

/// take a snapshot of all queries and evaluate the spec on the implementation's answers
pub fn snapshot(rec: &mut Recorder, w: &mut World, refl: &RefLinks, names: &[String], doms: &[Option<String>], limit: usize) {
    // property zone: unreachable, or reachable by a chain shorter than the limit
    let mut mask = String::new();
    let mut want = String::new();
    for d in doms {
        for a in names {
            for b in names {
                match refl.dist(a, b, d) {
                    None => { mask.push('.'); want.push('0'); }
                    Some(0) => { mask.push('.'); want.push('1'); }
                    Some(k) if k < limit => { mask.push('.'); want.push('1'); }
                    Some(_) => { mask.push('?'); want.push('?'); rec.count("query:open-zone"); }
                }
            }
        }
    }
    let doms_s = doms.iter().map(dom_s).collect::<Vec<_>>().join(",");
    let op = format!("rm.snap\t{}\t{}\t{}", enc_list(names), doms_s, mask);
    let out = rec.exec(w, &op);
    rec.exec(w, &format!("~rm.snapf\t{}\t{}", enc_list(names), doms_s));
    // --- spec on the implementation ---
    let mut expect = format!("H:{}", want);
    for d in doms {
        for a in names {
            expect.push_str(&format!(" R:{} U:{}", enc_list(&refl.roles(a, d)), enc_list(&refl.users(a, d))));
        }
    }
    if out != expect {
        rec.fail("reachability", format!("queries differ from reachability in the link set: got {} want {}", out, expect));
    }
    rec.count_n("query:has_link", want.len() as u64);
    rec.count_n("query:reachable", want.bytes().filter(|&c| c == b'1').count() as u64);
}

fn apply(rec: &mut Recorder, w: &mut World, refl: &mut RefLinks, op: &Op) {
    let out = rec.exec(w, &op.line());
    match op {
        Op::Add(a, b, d) => { refl.add(a, b, d); rec.count("op:add"); }
        Op::Del(a, b, d) => {
            // a link that is present must be deletable
            let present = refl.doms.get(&dkey(d)).map(|s| s.contains(&(a.clone(), b.clone()))).unwrap_or(false);
            if present && out != "ok" {
                rec.fail("delete-present-link-failed", format!("delete_link({},{},{:?}) of a present link returned {}", a, b, d, out));
            }
            refl.del(a, b, d);
            rec.count(if out == "ok" { "op:del-ok" } else { "op:del-err" });
        }
        Op::Clear => { refl.clear(); rec.count("op:clear"); }
    }
}

fn alphabet(names: &[String], doms: &[Option<String>]) -> Vec<Op> {
    let mut v = vec![];
    for d in doms {
        for a in names {
            for b in names {
                v.push(Op::Add(a.clone(), b.clone(), d.clone()));
                v.push(Op::Del(a.clone(), b.clone(), d.clone()));
            }
        }
    }
    v.push(Op::Clear);
    v
}

fn run_history(rec: &mut Recorder, w: &mut World, limit: usize, hist: &[Op], names: &[String], doms: &[Option<String>], snap_every: bool) {
    rec.begin();
    rec.exec(w, &format!("rm.new\t{}", limit));
    let mut refl = RefLinks::default();
    for (i, op) in hist.iter().enumerate() {
        apply(rec, w, &mut refl, op);
        if snap_every || i + 1 == hist.len() {
            snapshot(rec, w, &refl, names, doms, limit);
        }
    }
    if hist.is_empty() {
        snapshot(rec, w, &refl, names, doms, limit);
    }
}

pub fn run(rec: &mut Recorder, w: &mut World, tier: &str, seed: u64) {
    let names: Vec<String> = ["a", "b", "c"].iter().map(|s| s.to_string()).collect();
    let doms = vec![None, Some("d1".to_string())];
    let alpha = alphabet(&names, &doms);
    // ---- exhaustive small scope: every history up to length L ----
    let (l10, lsmall) = if tier == "thorough" { (4usize, 3usize) } else { (3, 2) };
    rec.notes.insert("exhaustive_len_limit10".into(), l10.into());
    rec.notes.insert("exhaustive_len_limits_1_2_3".into(), lsmall.into());
    rec.notes.insert("alphabet".into(), alpha.len().into());
    let mut histories = 0u64;
    for (limit, maxlen) in [(10usize, l10), (1, lsmall), (2, lsmall), (3, lsmall)] {
        let mut idx = vec![0usize; 0];
        // iterate over all sequences of length 0..=maxlen (odometer per length)
        for len in 0..=maxlen {
            idx.clear();
            idx.resize(len, 0);
            loop {
                let hist: Vec<Op> = idx.iter().map(|&i| alpha[i].clone()).collect();
                run_history(rec, w, limit, &hist, &names, &doms, false);
                histories += 1;
                if histories % 9973 == 1 && len >= 2 {
                    rec.sample(format!("limit={} {}", limit, hist.iter().map(|o| o.line().replace('\t', " ")).collect::<Vec<_>>().join(" ; ")));
                }
                let canon = format!("{}|{}", limit, hist.iter().map(|o| o.line()).collect::<Vec<_>>().join("|"));
                if hist.iter().any(|o| matches!(o, Op::Add(a, b, _) if a != b)) { rec.nontrivial_case(&canon); }
                // next
                let mut k = len;
                loop {
                    if k == 0 { break; }
                    k -= 1;
                    idx[k] += 1;
                    if idx[k] < alpha.len() { break; }
                    idx[k] = 0;
                    if k == 0 { k = usize::MAX; break; }
                }
                if len == 0 || k == usize::MAX { break; }
            }
        }
    }
    rec.count_n("histories:exhaustive", histories);
    rec.exhaustive = true;
    // ---- seeded random histories with structured shapes ----
    let mut rng = Rng::new(seed);
    let n_random = (if tier == "thorough" { 4000 } else { 250 }) * rec.budget;
    for hi in 0..n_random {
        let nn = 4 + rng.below(9); // 4..12 names
        let mut names: Vec<String> = (0..nn).map(|i| format!("n{}", i)).collect();
        let mut doms = vec![None, Some("d1".to_string()), Some("DEFAULT".to_string())];
        // every other history: unusual but valid names and domains — empty, blank-only, blank-edged and case variants of a
        // name that is also present, "*", names whose concatenations coincide ("a"+"bc" = "ab"+"c", ""+"ab" = "a"+"b")
        if hi % 2 == 1 {
            let odd = ["", " ", "n1 ", " n1", "N1", "*", "a", "ab", "abc", "b", "bc", "c", "é", "DEFAULT", "n1n2", "n,1"];
            for _ in 0..2 + rng.below(5) { let i = rng.below(nn); let o = rng.pick(&odd).to_string(); if !names.contains(&o) { names[i] = o; } }
            let oddd = ["", " ", "*", "d1 ", "D1", "n1"];
            for _ in 0..1 + rng.below(2) { let o = Some(rng.pick(&oddd).to_string()); if !doms.contains(&o) { doms.push(o); } }
            rec.count("names:unusual-values");
        }
        let limit = *rng.pick(&[10usize, 10, 10, 1, 2, 3, 5]);
        let mut hist: Vec<Op> = vec![];
        let len = 5 + rng.below(56);
        while hist.len() < len {
            let d = rng.pick(&doms).clone();
            match rng.below(10) {
                0 | 1 => {
                    // a chain straddling the limit
                    let l = (limit.saturating_sub(2)).max(1) + rng.below(5);
                    let start = rng.below(nn);
                    for i in 0..l.min(nn - 1) {
                        hist.push(Op::Add(names[(start + i) % nn].clone(), names[(start + i + 1) % nn].clone(), d.clone()));
                    }
                    rec.count("shape:chain");
                }
                2 => {
                    // diamond
                    let p: Vec<usize> = (0..4).map(|_| rng.below(nn)).collect();
                    hist.push(Op::Add(names[p[0]].clone(), names[p[1]].clone(), d.clone()));
                    hist.push(Op::Add(names[p[0]].clone(), names[p[2]].clone(), d.clone()));
                    hist.push(Op::Add(names[p[1]].clone(), names[p[3]].clone(), d.clone()));
                    hist.push(Op::Add(names[p[2]].clone(), names[p[3]].clone(), d.clone()));
                    rec.count("shape:diamond");
                }
                3 => {
                    // cycle
                    let l = 2 + rng.below(3);
                    let start = rng.below(nn);
                    for i in 0..l {
                        hist.push(Op::Add(names[(start + i) % nn].clone(), names[(start + (i + 1) % l) % nn].clone(), d.clone()));
                    }
                    rec.count("shape:cycle");
                }
                4 | 5 => {
                    // delete a link that was added earlier (or re-add a deleted one)
                    let adds: Vec<&Op> = hist.iter().filter(|o| matches!(o, Op::Add(..))).collect();
                    if !adds.is_empty() {
                        if let Op::Add(a, b, d0) = (*rng.pick(&adds)).clone() {
                            hist.push(Op::Del(a.clone(), b.clone(), d0.clone()));
                            if rng.chance(1, 3) { hist.push(Op::Add(a, b, d0)); }
                        }
                    }
                    rec.count("shape:delete-present");
                }
                6 => {
                    // delete something absent / in a domain that does not exist / unknown name
                    let a = if rng.chance(1, 4) { "ghost".to_string() } else { names[rng.below(nn)].clone() };
                    let d2 = if rng.chance(1, 4) { Some("nodom".to_string()) } else { d.clone() };
                    hist.push(Op::Del(a, names[rng.below(nn)].clone(), d2));
                    rec.count("shape:delete-absent");
                }
                7 => {
                    if rng.chance(1, 4) { hist.push(Op::Clear); }
                }
                _ => {
                    hist.push(Op::Add(names[rng.below(nn)].clone(), names[rng.below(nn)].clone(), d.clone()));
                }
            }
        }
        // query universe: the names plus one never mentioned
        let mut qn = names.clone();
        qn.push("ghost".to_string());
        let mut qd = doms.clone(); qd.push(Some("nodom".to_string()));
        rec.begin();
        rec.exec(w, &format!("rm.new\t{}", limit));
        let mut refl = RefLinks::default();
        let every = 1 + rng.below(6);
        for (i, op) in hist.iter().enumerate() {
            apply(rec, w, &mut refl, op);
            if i % every == 0 || i + 1 == hist.len() {
                snapshot(rec, w, &refl, &qn, &qd, limit);
            }
        }
        let canon = hist.iter().map(|o| o.line()).collect::<Vec<_>>().join("|");
        rec.nontrivial_case(&canon);
        if hi < 2 {
            rec.sample(format!("random limit={} len={} first ops: {}", limit, hist.len(), hist.iter().take(6).map(|o| o.line().replace('\t', " ")).collect::<Vec<_>>().join(" ; ")));
        }
    }
    rec.count_n("histories:random", n_random);
}
