//! C19 — role definitions are independent relations.
use crate::ast::*;
use crate::c03::RefLinks;
use crate::interp::World;
use crate::mgmt::*;
use crate::proto::*;

/// user roles (g) + resource roles (g2); with `dom` both carry a domain
fn model(dom: bool) -> (ModelDef, Vec<String>) {
    let r = |i| Ex::R(i); let p = |i| Ex::P(i);
    if !dom {
        let rt = sv(&["sub", "obj", "act"]);
        let m = and(and(Ex::G2("g".into(), b(r(0)), b(p(0))), Ex::G2("g2".into(), b(r(1)), b(p(1)))), eq(r(2), p(2)));
        (ModelDef { r: vec![("r".into(), rt.clone())], p: vec![("p".into(), rt.clone())], g: vec![("g".into(), 2), ("g2".into(), 2)],
            e: vec![("e".into(), E_ALLOW.into())], m: vec![("m".into(), m.sexpr(), m.text("r", &rt, "p", &rt))], tbl: vec![] }, rt)
    } else {
        let rt = sv(&["sub", "dom", "obj", "act"]);
        let m = and(and(and(Ex::G3("g".into(), b(r(0)), b(p(0)), b(r(1))), Ex::G3("g2".into(), b(r(2)), b(p(2)), b(r(1)))), eq(r(1), p(1))), eq(r(3), p(3)));
        (ModelDef { r: vec![("r".into(), rt.clone())], p: vec![("p".into(), rt.clone())], g: vec![("g".into(), 3), ("g2".into(), 3)],
            e: vec![("e".into(), E_ALLOW.into())], m: vec![("m".into(), m.sexpr(), m.text("r", &rt, "p", &rt))], tbl: vec![] }, rt)
    }
}

/// the specification: one relation per definition
fn spec_decision(p: &[Vec<String>], g1: &RefLinks, g2: &RefLinks, req: &[String], dom: bool) -> bool {
    p.iter().any(|rule| {
        if !dom {
            g1.dist(&req[0], &rule[0], &None).is_some() && g2.dist(&req[1], &rule[1], &None).is_some() && req[2] == rule[2]
        } else {
            let d = Some(req[1].clone());
            g1.dist(&req[0], &rule[0], &d).is_some() && g2.dist(&req[2], &rule[2], &d).is_some() && req[1] == rule[1] && req[3] == rule[3]
        }
    })
}

pub fn run(rec: &mut Recorder, w: &mut World, tier: &str, seed: u64) {
    let mut rng = Rng::new(seed);
    let n_hist = (if tier == "thorough" { 900 } else { 90 }) * rec.budget as usize;
    for dom in [false, true] { for shared in [false, true] {
        let (m, _rt) = model(dom);
        // shared: the same names occur under both definitions; disjoint: users/roles vs resources/groups
        let n1: Vec<&str> = if shared { vec!["a", "b", "c", "d"] } else { vec!["alice", "bob", "admin", "staff"] };
        let n2: Vec<&str> = if shared { vec!["a", "b", "c", "d"] } else { vec!["data1", "data2", "grp", "grp2"] };
        let doms = ["t1", "t2"];
        // exhaustive part: every add/remove history of length <= L over a 3+3 link alphabet
        let mut hists: Vec<Vec<MOp>> = vec![];
        let mk = |def: &str, a: &str, c: &str| -> Vec<String> { let mut r = sv(&[a, c]); if dom { r.push("t1".into()); } let _ = def; r };
        let mut alpha: Vec<MOp> = vec![];
        for (def, ns) in [("g", &n1), ("g2", &n2)] {
            for (a, c) in [(ns[0], ns[2]), (ns[1], ns[2]), (ns[2], ns[3])] {
                alpha.push(MOp::Add("g".into(), def.into(), mk(def, a, c)));
                alpha.push(MOp::Rm("g".into(), def.into(), mk(def, a, c)));
            }
        }
        alpha.push(MOp::RmF("g".into(), "g".into(), 0, sv(&[n1[0]])));
        alpha.push(MOp::RmF("g".into(), "g2".into(), 1, sv(&[n2[2]])));
        let l = if tier == "thorough" { 4 } else { 3 };
        let mut idx: Vec<usize> = vec![];
        for len in 1..=l {
            idx.clear(); idx.resize(len, 0);
            loop {
                // keep the enumeration affordable: quick tier samples the longest length
                if len < l || tier == "thorough" || rng.chance(1, 6) { hists.push(idx.iter().map(|&i| alpha[i].clone()).collect()); }
                let mut k = len; let mut done = false;
                loop { if k == 0 { done = true; break; } k -= 1; idx[k] += 1; if idx[k] < alpha.len() { break; } idx[k] = 0; }
                if done { break; }
            }
        }
        let n_ex = hists.len();
        for _ in 0..n_hist {
            let len = 2 + rng.below(if tier == "thorough" { 30 } else { 14 });
            hists.push((0..len).map(|_| {
                let (def, ns) = if rng.chance(1, 2) { ("g", &n1) } else { ("g2", &n2) };
                let mut r = sv(&[*rng.pick(ns), *rng.pick(ns)]); if dom { r.push(rng.pick(&doms).to_string()); }
                match rng.below(10) { 0..=4 => MOp::Add("g".into(), def.into(), r), 5 | 6 => MOp::Rm("g".into(), def.into(), r),
                    7 => MOp::RmF("g".into(), def.into(), rng.below(2), vec![r[0].clone()]),
                    // the RBAC helpers speak about the first definition only: a user or a role deleted under g
                    8 => MOp::DelUser(r[0].clone()), _ => MOp::DelRole(r[1].clone()) }
            }).collect());
        }
        for (hi, hist) in hists.iter().enumerate() {
            rec.begin();
            // a few permissions on roles / groups
            let mut lines: Vec<Vec<String>> = vec![];
            let mut p: Vec<Vec<String>> = vec![];
            for (s, o) in [(n1[2], n2[2]), (n1[3], n2[3]), (n1[0], n2[0])] {
                let rule = if dom { sv(&[s, "t1", o, "read"]) } else { sv(&[s, o, "read"]) };
                let mut l = sv(&["p", "p"]); l.extend(rule.clone()); lines.push(l); p.push(rule);
            }
            new_enforcer(rec, w, &m, "memory", &lines, "", false);
            let (mut g1, mut g2) = (RefLinks::default(), RefLinks::default());
            let mut descr = vec![];
            let mut stored: [Vec<Vec<String>>; 2] = [vec![], vec![]];
            for op in hist {
                rec.exec(w, &op.line());
                descr.push(op.line().replace('\t', " "));
                // the spec keeps one link set per definition, read back from the stored rules
                let pol = rec.exec(w, "e.pol");
                g1 = RefLinks::default(); g2 = RefLinks::default();
                // ... and a call made under one definition leaves the rules stored under the other as they were
                let now: [Vec<Vec<String>>; 2] = { let ls = dec_lists(pol.split(' ').nth(1).unwrap_or("-")); [ls.iter().filter(|l| l[1] == "g").cloned().collect(), ls.iter().filter(|l| l[1] == "g2").cloned().collect()] };
                let target = match op { MOp::Add(_, d, _) | MOp::Rm(_, d, _) | MOp::RmF(_, d, _, _) | MOp::AddM(_, d, _) | MOp::RmM(_, d, _) => d.as_str(), _ => "g" };
                let other = if target == "g" { 1 } else { 0 };
                if now[other] != stored[other] {
                    rec.fail("definitions-interfere-store", format!("[dom={} shared-names={}] {} (a call on {}) changed the rules stored under {}: {:?} -> {:?}", dom, shared, op.line().replace('\t', " "), target, if other == 1 { "g2" } else { "g" }, stored[other], now[other]));
                }
                stored = now;
                for l in dec_lists(pol.split(' ').nth(1).unwrap_or("-")) {
                    let d = if dom { Some(l[4].clone()) } else { None };
                    if l[1] == "g" { g1.add(&l[2], &l[3], &d) } else { g2.add(&l[2], &l[3], &d) }
                }
            }
            // the permissions in force (delete_user / delete_role take the deleted name's permission rules along)
            let p: Vec<Vec<String>> = { let pol = rec.exec(w, "e.pol"); dec_lists(pol.split(' ').next().unwrap_or("-")).iter().filter(|l| l.len() > 2).map(|l| l[2..].to_vec()).collect() };
            // all requests
            let mut reqs: Vec<Vec<String>> = vec![];
            for s in &n1 { for o in &n2 { if dom { for t in doms { reqs.push(sv(&[s, t, o, "read"])); } } else { reqs.push(sv(&[s, o, "read"])); } } }
            let dec = rec.exec(w, &format!("e.enfs\t{}", reqs_field(&reqs)));
            let want: String = reqs.iter().map(|rq| if spec_decision(&p, &g1, &g2, rq, dom) { 't' } else { 'f' }).collect();
            if dec != want {
                let i = dec.bytes().zip(want.bytes()).position(|(a, c)| a != c).unwrap_or(0);
                let sig = if shared { "shared-role-manager" } else { "definitions-interfere" };
                rec.fail(sig, format!("[dom={} shared-names={}] after {}: request {:?} decided {} but with one relation per definition it is {}", dom, shared, descr.join(" ; "), reqs[i], &dec[i..i + 1], &want[i..i + 1]));
            }
            // role queries of the first definition only see its own links
            for n in &n1 {
                let d = if dom { Some("t1".to_string()) } else { None };
                let got = rec.exec(w, &format!("e.roles\t{}\t{}", n, if dom { "t1" } else { "-" }));
                if got != enc_list(&g1.roles(n, &d)) {
                    let sig = if shared { "shared-role-manager" } else { "definitions-interfere" };
                    rec.fail(sig, format!("[dom={} shared-names={}] after {}: roles of {} = {} but the links stored under g give {:?}", dom, shared, descr.join(" ; "), n, got, g1.roles(n, &d)));
                }
            }
            rec.count(&format!("config:dom={}:shared={}", dom, shared));
            rec.count_n("decisions:granted", dec.bytes().filter(|&c| c == b't').count() as u64);
            rec.nontrivial_case(&format!("{}|{}|{}", dom, shared, descr.join("|")));
            if hi == n_ex { rec.sample(format!("dom={} shared={} {}", dom, shared, descr.join(" ; "))); }
        }
        rec.count_n("histories:exhaustive", n_ex as u64);
    } }
    run_mixed(rec, w, tier, &mut rng);
}

/// mixed arities: user roles carry a domain (`g = _, _, _`), resource roles do not (`g2 = _, _`), and the SAME
/// names occur under both.  The two relations live in different graphs of the shared manager (named domains vs the
/// domain-less one), so here independence must hold without exception.
fn run_mixed(rec: &mut Recorder, w: &mut World, tier: &str, rng: &mut Rng) {
    let r = |i| Ex::R(i); let p = |i| Ex::P(i);
    let rt = sv(&["sub", "dom", "obj", "act"]);
    let mx = and(and(and(Ex::G3("g".into(), b(r(0)), b(p(0)), b(r(1))), Ex::G2("g2".into(), b(r(2)), b(p(2)))), eq(r(1), p(1))), eq(r(3), p(3)));
    let m = ModelDef { r: vec![("r".into(), rt.clone())], p: vec![("p".into(), rt.clone())], g: vec![("g".into(), 3), ("g2".into(), 2)],
        e: vec![("e".into(), E_ALLOW.into())], m: vec![("m".into(), mx.sexpr(), mx.text("r", &rt, "p", &rt))], tbl: vec![] };
    let names = ["a", "b", "c", "d"];
    let n_hist = (if tier == "thorough" { 1500 } else { 150 }) * rec.budget as usize;
    for hi in 0..n_hist {
        rec.begin();
        // the second domain is, in every other history, an unusual but valid name: empty, blank-only, "*", blank-edged
        let doms: [&str; 2] = ["t1", if hi % 2 == 0 { "t2" } else { *rng.pick(&["", "", " ", "*", "t1 "]) }];
        let mut lines: Vec<Vec<String>> = vec![];
        let mut pr: Vec<Vec<String>> = vec![];
        for (s, t, o) in [("c", doms[0], "c"), ("d", doms[0], "d"), ("a", doms[0], "b"), ("a", doms[1], "b"), ("c", doms[1], "c")] { let rule = sv(&[s, t, o, "read"]); let mut l = sv(&["p", "p"]); l.extend(rule.clone()); lines.push(l); pr.push(rule); }
        new_enforcer(rec, w, &m, "memory", &lines, "", false);
        let mut descr = vec![];
        let (mut g1, mut g2) = (RefLinks::default(), RefLinks::default());
        for _ in 0..2 + rng.below(if tier == "thorough" { 24 } else { 12 }) {
            let first = rng.chance(1, 2);
            let mut rule = sv(&[*rng.pick(&names), *rng.pick(&names)]);
            if first { rule.push(rng.pick(&doms).to_string()); }
            // a rule of the two-place definition may carry an extra field (ignored by it) that happens to be a domain name
            else if rng.chance(1, 4) { rule.push(rng.pick(&doms).to_string()); rec.count("rule:longer-than-definition"); }
            let def = if first { "g" } else { "g2" };
            let op = match rng.below(10) { 0..=4 => MOp::Add("g".into(), def.into(), rule), 5 | 6 => MOp::Rm("g".into(), def.into(), rule),
                // batch calls on either definition: what is stored of this definition right now (all removed in one call), or two additions
                7 => { let cur = rec.exec(w, &format!("e.get\tg\t{}", def)); let mut rs = dec_lists(&cur); rs.truncate(1 + rng.below(3)); if rs.is_empty() { MOp::Rm("g".into(), def.into(), rule) } else { MOp::RmM("g".into(), def.into(), rs) } }
                8 => { let mut r2 = sv(&[*rng.pick(&names), *rng.pick(&names)]); if first { r2.push(rng.pick(&doms).to_string()); } MOp::AddM("g".into(), def.into(), vec![rule, r2]) }
                _ => MOp::RmF("g".into(), def.into(), rng.below(2), vec![rule[0].clone()]) };
            rec.exec(w, &op.line());
            descr.push(op.line().replace('\t', " "));
            if rng.chance(1, 8) { descr.push(format!("build_role_links -> {}", rec.exec(w, "e.build"))); }
            // auto-save switched off for the rest of the history, and successful reloads: what was changed since under either
            // definition is dropped again, the links of both follow
            if rng.chance(1, 12) { rec.exec(w, "e.auto\tsave\tfalse"); descr.push("enable_auto_save(false)".into()); }
            if rng.chance(1, 10) { descr.push(format!("load_policy -> {}", rec.exec(w, "e.load"))); rec.count("op:load"); }
            // a load that fails (the adapter errs, or fails after delivering a part): every definition gets its own rules back
            if rng.chance(1, 10) { let f = *rng.pick(&["err", "fail1", "fail3"]); rec.exec(w, &format!("e.fault\t{}", f)); descr.push(format!("load_policy failing ({}) -> {}", f, rec.exec(w, "e.load"))); rec.exec(w, "e.fault\t-"); rec.count("op:failing-load"); }
        }
        if hi % 3 == 0 { descr.push(format!("build_role_links -> {}", rec.exec(w, "e.build"))); }
        let pol = rec.exec(w, "e.pol");
        for l in dec_lists(pol.split(' ').nth(1).unwrap_or("-")) {
            if l.len() < 4 { continue; }
            if l[1] == "g" { g1.add(&l[2], &l[3], &l.get(4).cloned()) } else { g2.add(&l[2], &l[3], &None) }
        }
        let mut reqs: Vec<Vec<String>> = vec![];
        for s in names { for o in names { for t in doms { reqs.push(sv(&[s, t, o, "read"])); } } }
        let dec = rec.exec(w, &format!("e.enfs\t{}", reqs_field(&reqs)));
        let want: String = reqs.iter().map(|rq| if pr.iter().any(|rule| { let d = Some(rq[1].clone());
            g1.dist(&rq[0], &rule[0], &d).is_some() && g2.dist(&rq[2], &rule[2], &None).is_some() && rq[1] == rule[1] && rq[3] == rule[3] }) { 't' } else { 'f' }).collect();
        if dec != want {
            let i = dec.bytes().zip(want.bytes()).position(|(a, c)| a != c).unwrap_or(0);
            rec.fail("definitions-interfere", format!("[mixed arities g=_,_,_ g2=_,_ shared names] after {}: request {:?} decided {} but with one relation per definition it is {}", descr.join(" ; "), reqs[i], &dec[i..i + 1], &want[i..i + 1]));
        }
        rec.count("config:mixed-arity");
        rec.count_n("decisions:granted", dec.bytes().filter(|&c| c == b't').count() as u64);
        rec.nontrivial_case(&format!("mixed|{}", descr.join("|")));
        if hi == 0 { rec.sample(format!("mixed {}", descr.join(" ; "))); }
    }
}
