//! C07 — tenants are isolated in domain models.
use crate::c01::*;
use crate::c05::dom_f;
use crate::interp::World;
use crate::mgmt::*;
use crate::proto::*;

const DOMS: [&str; 3] = ["d1", "d2", "d3"];
const SUBS: [&str; 4] = ["alice", "bob", "admin", "staff"];

fn p_rule(rng: &mut Rng, dom: &str) -> Vec<String> {
    sv(&[*rng.pick(&["alice", "admin", "staff"]), dom, *rng.pick(&["data1", "data2"]), *rng.pick(&["read", "write"])])
}
fn g_rule(rng: &mut Rng, dom: &str) -> Vec<String> {
    sv(&[*rng.pick(&SUBS), *rng.pick(&["admin", "staff", "alice"]), dom])
}

/// everything observable about one tenant
fn view(rec: &mut Recorder, w: &mut World, d: &str) -> String {
    let mut reqs = vec![];
    for s in SUBS { for o in ["data1", "data2"] { for a in ["read", "write"] { reqs.push(sv(&[s, d, o, a])); } } }
    let mut out = rec.exec(w, &format!("e.enfs\t{}", reqs_field(&reqs)));
    let dd = dom_f(&Some(d.to_string()));
    for n in SUBS {
        out.push('|'); out.push_str(&rec.exec(w, &format!("e.roles\t{}\t{}", n, dd)));
        out.push('|'); out.push_str(&rec.exec(w, &format!("e.users\t{}\t{}", n, dd)));
        out.push('|'); out.push_str(&rec.exec(w, &format!("e.iroles\t{}\t{}", n, dd)));
        out.push('|'); out.push_str(&rec.exec(w, &format!("e.iperms\t{}\t{}", n, dd)));
        out.push('|'); out.push_str(&rec.exec(w, &format!("e.perms\t{}\t{}", n, dd)));
    }
    out
}

/// a mutation confined to domain `o`
fn confined_op(rng: &mut Rng, o: &str) -> MOp {
    let p = "p".to_string(); let g = "g".to_string();
    match rng.below(14) {
        0..=2 => MOp::Add(p.clone(), p, p_rule(rng, o)),
        3 => MOp::Rm(p.clone(), p, p_rule(rng, o)),
        4..=6 => MOp::Add(g.clone(), g, g_rule(rng, o)),
        7 => MOp::Rm(g.clone(), g, g_rule(rng, o)),
        8 => { let n = 1 + rng.below(3); MOp::AddM(p.clone(), p, (0..n).map(|_| p_rule(rng, o)).collect()) }
        9 => { let n = 1 + rng.below(3); MOp::RmM(g.clone(), g, (0..n).map(|_| g_rule(rng, o)).collect()) }
        10 => MOp::RmF(p.clone(), p, 1, vec![o.to_string()]),                              // every rule of the tenant
        11 => MOp::RmF(p.clone(), p, 0, vec![rng.pick(&SUBS).to_string(), o.to_string()]),  // a subject's rules in the tenant
        12 => MOp::RmF(g.clone(), g, 0, vec![rng.pick(&SUBS).to_string(), String::new(), o.to_string()]), // delete_roles_for_user(u, Some(o))
        _ => MOp::RmF(g.clone(), g, 2, vec![o.to_string()]),
    }
}

pub fn run(rec: &mut Recorder, w: &mut World, tier: &str, seed: u64) {
    let mut rng = Rng::new(seed);
    let ks = kinds();
    let mut k = ks.iter().find(|k| k.name == "domains").unwrap().clone();
    // the tenant column is identified by its position, not by a token called `dom`
    k.rt[1] = "tenant".into(); k.pt[1] = "tenant".into();
    let m = model_of(&k, E_ALLOW, false, "", false);
    // exhaustive small scope: every history of length <= L over a fixed 10-op alphabet of other-tenant mutations
    let l = if tier == "thorough" { 3 } else { 2 };
    let fixed: Vec<MOp> = vec![
        MOp::Add("p".into(), "p".into(), sv(&["admin", "d2", "data1", "read"])),
        MOp::Rm("p".into(), "p".into(), sv(&["admin", "d2", "data1", "read"])),
        MOp::Add("g".into(), "g".into(), sv(&["alice", "admin", "d2"])),
        MOp::Rm("g".into(), "g".into(), sv(&["alice", "admin", "d2"])),
        MOp::Add("g".into(), "g".into(), sv(&["bob", "staff", "d3"])),
        MOp::RmF("p".into(), "p".into(), 1, sv(&["d2"])),
        MOp::RmF("g".into(), "g".into(), 0, sv(&["alice", "", "d2"])),
        MOp::RmF("g".into(), "g".into(), 2, sv(&["d3"])),
        MOp::AddM("p".into(), "p".into(), vec![sv(&["staff", "d3", "data2", "write"]), sv(&["alice", "d2", "data1", "read"])]),
        MOp::RmF("p".into(), "p".into(), 0, sv(&["alice", "d2"])),
    ];
    let base_lines: Vec<Vec<String>> = vec![
        sv(&["p", "p", "admin", "d1", "data1", "read"]), sv(&["p", "p", "admin", "d2", "data1", "read"]), sv(&["p", "p", "alice", "d2", "data1", "read"]),
        sv(&["p", "p", "staff", "d3", "data2", "write"]), sv(&["g", "g", "alice", "admin", "d1"]), sv(&["g", "g", "alice", "admin", "d2"]),
        sv(&["g", "g", "bob", "staff", "d3"]), sv(&["g", "g", "admin", "staff", "d1"]),
    ];
    let mut n_ex = 0u64;
    for len in 1..=l {
        let mut idx = vec![0usize; len];
        loop {
            rec.begin();
            new_enforcer(rec, w, &m, "memory", &base_lines, "", false);
            let mut before = view(rec, w, "d1");
            let mut descr = vec![];
            for &i in &idx {
                rec.exec(w, &fixed[i].line());
                descr.push(fixed[i].line().replace('\t', " "));
                let after = view(rec, w, "d1");
                if after != before { rec.fail("tenant-leak", format!("view of d1 changed after other-tenant mutations {} :: {} -> {}", descr.join(" ; "), before, after)); break; }
                before = after;
            }
            n_ex += 1;
            rec.nontrivial_case(&format!("ex|{}", descr.join("|")));
            let mut kk = len; let mut done = false;
            loop { if kk == 0 { done = true; break; } kk -= 1; idx[kk] += 1; if idx[kk] < fixed.len() { break; } idx[kk] = 0; }
            if done { break; }
        }
    }
    rec.count_n("histories:exhaustive", n_ex);
    rec.exhaustive = true;
    // directed: automatic link building was off for a while in BOTH tenants (rules stored, links not built), then back on;
    // other-tenant calls whose link update now fails (or succeeds) must still leave the observed tenant alone
    let n_dir = (if tier == "thorough" { 200 } else { 30 }) * rec.budget as usize;
    for _ in 0..n_dir {
        rec.begin();
        new_enforcer(rec, w, &m, "memory", &base_lines, "", false);
        let mut descr = vec!["enable_auto_build_role_links(false)".to_string()];
        rec.exec(w, "e.auto\tbuild\tfalse");
        let own = g_rule(&mut rng, "d1");
        let o1 = rec.exec(w, &MOp::Add("g".into(), "g".into(), own.clone()).line());
        descr.push(format!("add {:?} -> {}", own, o1));
        let mut theirs: Vec<Vec<String>> = vec![];
        for _ in 0..1 + rng.below(3) { let od = *rng.pick(&["d2", "d3"]); let r = g_rule(&mut rng, od); let o = rec.exec(w, &MOp::Add("g".into(), "g".into(), r.clone()).line()); descr.push(format!("add {:?} -> {}", r, o)); theirs.push(r); }
        rec.exec(w, "e.auto\tbuild\ttrue");
        descr.push("enable_auto_build_role_links(true)".to_string());
        let mut before = view(rec, w, "d1");
        for _ in 0..2 + rng.below(4) {
            let op = if !theirs.is_empty() && rng.chance(2, 3) { let r = theirs[rng.below(theirs.len())].clone();
                match rng.below(3) { 0 => MOp::Rm("g".into(), "g".into(), r), 1 => MOp::RmM("g".into(), "g".into(), vec![r]), _ => MOp::RmF("g".into(), "g".into(), 0, vec![r[0].clone(), String::new(), r[2].clone()]) } }
                else { let od = *rng.pick(&["d2", "d3"]); confined_op(&mut rng, od) };
            let o = rec.exec(w, &op.line());
            descr.push(format!("{} -> {}", op.line().replace('\t', " "), o));
            let after = view(rec, w, "d1");
            if after != before { rec.fail("tenant-leak", format!("view of d1 changed after a mutation confined to another tenant: {} :: {} -> {}", descr.join(" ; "), before, after)); break; }
            before = after;
        }
        rec.count("histories:auto-build-toggled");
        rec.nontrivial_case(&format!("dir|{}", descr.join("|")));
    }
    // seeded random
    let n_hist = (if tier == "thorough" { 1500 } else { 120 }) * rec.budget as usize;
    let maxlen = if tier == "thorough" { 80 } else { 30 };
    for hi in 0..n_hist {
        // every other history: tenants with unusual but valid names — blank-only, "*", the role manager's "DEFAULT", a
        // blank-edged or case variant of another tenant's name, a name with a comma.  (Not the empty string: an empty filter
        // value is the documented wildcard, so a filtered removal "in tenant ''" is not confined to it.)
        let odd = hi % 2 == 1;
        let doms: Vec<&str> = if odd {
            let pool = ["d1", " ", "*", "DEFAULT", "d1 ", "D1", "  ", "d,1", "**", "d*"];
            let mut v: Vec<&str> = vec![];
            while v.len() < 3 { let d = *rng.pick(&pool); if !v.contains(&d) { v.push(d); } }
            rec.count("tenants:unusual-names");
            v
        } else { DOMS.to_vec() };
        let obs = *rng.pick(&doms);
        let others: Vec<&str> = doms.iter().cloned().filter(|d| *d != obs).collect();
        let mut lines: Vec<Vec<String>> = vec![];
        for _ in 0..rng.below(10) { let d = *rng.pick(&doms); let mut l = sv(&["p", "p"]); l.extend(p_rule(&mut rng, d)); if !lines.contains(&l) { lines.push(l); } }
        for _ in 0..rng.below(10) { let d = *rng.pick(&doms); let mut l = sv(&["g", "g"]); l.extend(g_rule(&mut rng, d)); if !lines.contains(&l) { lines.push(l); } }
        rec.begin();
        new_enforcer(rec, w, &m, if odd { "memory" } else { *rng.pick(&["memory", "null", "file"]) }, &lines, "", false);
        // (file/null adapters start empty: seed the store through the API)
        let mut before = view(rec, w, obs);
        let len = 1 + rng.below(maxlen);
        let mut descr = vec![];
        for _ in 0..len {
            let o = *rng.pick(&others);
            let op = if rng.chance(1, 15) { // contrast: an operation in the observed tenant must be visible to the machinery
                MOp::Add("p".into(), "p".into(), p_rule(&mut rng, obs))
            } else { confined_op(&mut rng, o) };
            let confined = !matches!(&op, MOp::Add(_, _, r) if r.get(1).map(|x| x.as_str()) == Some(obs));
            rec.exec(w, &op.line());
            rec.count(&format!("op:{}", op.kind()));
            descr.push(op.line().replace('\t', " "));
            let after = view(rec, w, obs);
            if confined && after != before {
                rec.fail("tenant-leak", format!("view of {} changed after a mutation confined to another tenant: {} :: {} -> {}", obs, descr.join(" ; "), before, after));
                break;
            }
            if !confined { rec.count(if after != before { "contrast:own-tenant-change-visible" } else { "contrast:own-tenant-no-effect" }); }
            before = after;
        }
        rec.nontrivial_case(&format!("{}|{:?}|{}", obs, lines, descr.join("|")));
        if hi < 2 { rec.sample(format!("observe {} initial {:?} ops {}", obs, lines.iter().take(4).collect::<Vec<_>>(), descr.iter().take(5).cloned().collect::<Vec<_>>().join(" ; "))); }
    }
    rec.count_n("histories:random", n_hist as u64);
}
