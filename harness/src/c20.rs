//! C20 — concurrent enforcement is deterministic and deadlock-free.
//!
//! (A) static: the lock programs of every function of /repo/src (lockscan.rs) are checked against
//!     `Conc.disc` — the hypothesis of `C20.no_deadlock` — and a composition is explored by the model.
//! (B) dynamic, in a child process under a watchdog: threads share one enforcer
//!     * readers only (plain and cached): every decision equals the single-thread decision;
//!     * readers + a writer applying a known history under an outer RwLock + a thread using the
//!       role-manager handle: every decision equals the serial decision of the state it was taken in;
//!     * rendezvous runs: a role manager that, called under the crate's read guard, waits until another
//!       thread is queued in `handle.write()` — the schedule "a writer queued between two reads",
//!       forced instead of hoped for.
use crate::ast::{eq, or, Ex};
use crate::c01::*;
use crate::enf::{parse_val, E};
use crate::interp::World;
use crate::lockscan;
use crate::mgmt::*;
use crate::proto::*;
use casbin::prelude::*;
use casbin::rhai::Dynamic;
use casbin::{DefaultRoleManager, RoleManager};
use parking_lot::RwLock;
use serde::{Deserialize, Serialize};
use std::io::{BufRead, Write};
use std::sync::atomic::{AtomicBool, AtomicUsize, Ordering::SeqCst};
use std::sync::Arc;
use std::time::{Duration, Instant};

#[derive(Serialize, Deserialize, Clone, Default)]
pub struct Scenario {
    pub what: String,
    pub setup: Vec<String>,
    pub history: Vec<String>,
    pub reqs: Vec<String>,
    /// rows[i][j]: serial decision of request j after i writes
    pub rows: Vec<String>,
    /// implicit-users queries and their serial answers per state
    pub perms: Vec<String>,
    pub irows: Vec<Vec<String>>,
    pub threads: usize,
    pub rounds: usize,
    pub seed: u64,
    pub writer: bool,
    pub handle: String,
    pub helpers: bool,
    pub rendezvous: bool,
    pub users: Vec<String>,
    pub watchdog_ms: u64,
    /// requests are also asked through enforce_with_context(<suffix>): serial rows per state
    #[serde(default)]
    pub ctx: Option<String>,
    #[serde(default)]
    pub ctx_rows: Vec<String>,
    /// ... and through a hand-built context (request, policy, effect, matcher section names): serial rows per state
    /// direct roles of each of `users` (sorted), per state — asked through get_roles_for_user next to the decisions
    #[serde(default)]
    pub rrows: Vec<Vec<String>>,
    #[serde(default)]
    pub ctx2: Option<Vec<String>>,
    #[serde(default)]
    pub ctx2_rows: Vec<String>,
}

// ---------- the rendezvous role manager ----------

struct Ctl { armed: AtomicBool, inside: AtomicBool, about: AtomicBool, fired: AtomicUsize, stop: AtomicBool }

struct RvRm { inner: DefaultRoleManager, ctl: Arc<Ctl> }

impl RvRm {
    /// called under the crate's read guard: wait until the other thread is (about to be) parked in `write()`
    fn rendezvous(&self) {
        if self.ctl.armed.swap(false, SeqCst) {
            self.ctl.inside.store(true, SeqCst);
            let t0 = Instant::now();
            while !self.ctl.about.load(SeqCst) && t0.elapsed() < Duration::from_secs(2) { std::thread::sleep(Duration::from_millis(1)); }
            std::thread::sleep(Duration::from_millis(40));
            self.ctl.fired.fetch_add(1, SeqCst);
        }
    }
}

impl RoleManager for RvRm {
    fn clear(&mut self) { self.inner.clear() }
    fn add_link(&mut self, a: &str, b: &str, d: Option<&str>) { self.inner.add_link(a, b, d) }
    fn matching_fn(&mut self, r: Option<casbin::MatchingFn>, d: Option<casbin::MatchingFn>) { self.inner.matching_fn(r, d) }
    fn delete_link(&mut self, a: &str, b: &str, d: Option<&str>) -> casbin::Result<()> { self.inner.delete_link(a, b, d) }
    fn has_link(&self, a: &str, b: &str, d: Option<&str>) -> bool { self.rendezvous(); self.inner.has_link(a, b, d) }
    fn get_roles(&self, n: &str, d: Option<&str>) -> Vec<String> { self.rendezvous(); self.inner.get_roles(n, d) }
    fn get_users(&self, n: &str, d: Option<&str>) -> Vec<String> { self.rendezvous(); self.inner.get_users(n, d) }
}

// ---------- child process ----------

fn vals_of(req: &str) -> Vec<Dynamic> { if req == "|" { vec![] } else { req.split(',').map(parse_val).collect() } }

fn enforce_ref(e: &E, req: &str) -> char {
    let r = match e { E::Plain(x) => x.enforce(vals_of(req)), E::Cached(x) => x.enforce(vals_of(req)) };
    match r { Ok(true) => 't', Ok(false) => 'f', Err(_) => 'e' }
}

fn enforce_ctx_ref(e: &E, sfx: &str, req: &str) -> char {
    let r = match e { E::Plain(x) => x.enforce_with_context(casbin::EnforceContext::new(sfx), vals_of(req)), E::Cached(x) => x.enforce_with_context(casbin::EnforceContext::new(sfx), vals_of(req)) };
    match r { Ok(true) => 't', Ok(false) => 'f', Err(_) => 'e' }
}

fn enforce_ctx2_ref(e: &E, k: &[String], req: &str) -> char {
    let mk = || casbin::EnforceContext { r_type: k[0].clone(), p_type: k[1].clone(), e_type: k[2].clone(), m_type: k[3].clone() };
    let r = match e { E::Plain(x) => x.enforce_with_context(mk(), vals_of(req)), E::Cached(x) => x.enforce_with_context(mk(), vals_of(req)) };
    match r { Ok(true) => 't', Ok(false) => 'f', Err(_) => 'e' }
}

fn iusers_ref(rt: &tokio::runtime::Runtime, e: &E, perm: &str) -> String {
    let p = dec_list(perm);
    let v = match e { E::Plain(x) => rt.block_on(x.get_implicit_users_for_permission(p)), E::Cached(x) => rt.block_on(x.get_implicit_users_for_permission(p)) };
    enc_list(&sorted(v))
}

fn say(s: &str) { let o = std::io::stdout(); let mut l = o.lock(); writeln!(l, "{}", s).ok(); l.flush().ok(); }

pub fn child(path: &str) -> i32 {
    let sc: Scenario = serde_json::from_str(&std::fs::read_to_string(path).unwrap()).unwrap();
    if sc.what == "selftest" { return selftest(); }
    let mut w = World::new();
    for op in &sc.setup { w.exec(op); }
    if w.ew.enf.is_none() { say("mismatch setup did not build an enforcer"); return 0; }
    let ctl = Arc::new(Ctl { armed: AtomicBool::new(false), inside: AtomicBool::new(false), about: AtomicBool::new(false), fired: AtomicUsize::new(0), stop: AtomicBool::new(false) });
    if sc.rendezvous {
        let rv: Arc<RwLock<dyn RoleManager>> = Arc::new(RwLock::new(RvRm { inner: DefaultRoleManager::new(10), ctl: ctl.clone() }));
        let r = match w.ew.enf.as_mut().unwrap() { E::Plain(x) => x.set_role_manager(rv), E::Cached(x) => x.set_role_manager(rv) };
        if r.is_err() { say("mismatch set_role_manager failed"); return 0; }
    }
    let handle = match w.ew.enf.as_ref().unwrap() { E::Plain(x) => x.get_role_manager(), E::Cached(x) => x.get_role_manager() };
    let shared = Arc::new(RwLock::new(w));
    let ver = Arc::new(AtomicUsize::new(0));
    let done = Arc::new(AtomicBool::new(false));
    let mismatches = Arc::new(parking_lot::Mutex::new(Vec::<String>::new()));
    let mut joins = vec![];

    if sc.rendezvous {
        // the thread that gets queued in `write()` while a crate call sits inside the role manager
        let (h, c) = (handle.clone(), ctl.clone());
        let qt = std::thread::spawn(move || {
            while !c.stop.load(SeqCst) {
                if c.inside.load(SeqCst) {
                    c.about.store(true, SeqCst);
                    h.write().add_link("scratch_u", "scratch_r", None);
                    c.inside.store(false, SeqCst);
                    c.about.store(false, SeqCst);
                } else { std::thread::sleep(Duration::from_micros(200)); }
            }
        });
        let rt = tokio::runtime::Builder::new_current_thread().enable_all().build().unwrap();
        let g = shared.read();
        let e = g.ew.enf.as_ref().unwrap();
        let arm = |name: &str| { say(&format!("start {}", name)); ctl.armed.store(true, SeqCst); };
        for (j, req) in sc.reqs.iter().enumerate() {
            arm(&format!("enforce#{}", j));
            let d = enforce_ref(e, req);
            if sc.rows[0].as_bytes()[j] as char != d { mismatches.lock().push(format!("rendezvous enforce({}) = {} but single-thread = {}", req, d, sc.rows[0].as_bytes()[j] as char)); }
            say("done");
            if j >= 5 { break; }
        }
        for (k, perm) in sc.perms.iter().enumerate() {
            arm(&format!("get_implicit_users_for_permission#{}", k));
            let v = iusers_ref(&rt, e, perm);
            if v != sc.irows[0][k] { mismatches.lock().push(format!("rendezvous implicit users({}) = {} but single-thread = {}", perm, v, sc.irows[0][k])); }
            say("done");
        }
        for u in &sc.users {
            arm(&format!("get_implicit_roles_for_user({})", u));
            let _ = match e { E::Plain(x) => x.get_implicit_roles_for_user(u, None), E::Cached(x) => x.get_implicit_roles_for_user(u, None) };
            say("done");
            arm(&format!("get_implicit_permissions_for_user({})", u));
            let _ = match e { E::Plain(x) => x.get_implicit_permissions_for_user(u, None), E::Cached(x) => x.get_implicit_permissions_for_user(u, None) };
            say("done");
            arm(&format!("get_roles_for_user({})", u));
            let _ = match e { E::Plain(x) => x.get_roles_for_user(u, None), E::Cached(x) => x.get_roles_for_user(u, None) };
            say("done");
            arm(&format!("get_users_for_role({})", u));
            let _ = match e { E::Plain(x) => x.get_users_for_role(u, None), E::Cached(x) => x.get_users_for_role(u, None) };
            say("done");
            arm(&format!("has_role_for_user({})", u));
            let _ = match e { E::Plain(x) => x.has_role_for_user(u, "admin", None), E::Cached(x) => x.has_role_for_user(u, "admin", None) };
            say("done");
        }
        drop(g);
        ctl.stop.store(true, SeqCst);
        qt.join().ok();
        say(&format!("rendezvous-fired {}", ctl.fired.load(SeqCst)));
    } else {
        for ti in 0..sc.threads {
            let (shared, ver, sc, mm) = (shared.clone(), ver.clone(), sc.clone(), mismatches.clone());
            joins.push(std::thread::spawn(move || {
                let rt = tokio::runtime::Builder::new_current_thread().enable_all().build().unwrap();
                let mut rng = Rng::new(sc.seed.wrapping_mul(1000).wrapping_add(ti as u64));
                let mut last_v = 0usize;
                for _ in 0..sc.rounds {
                    let mut order: Vec<usize> = (0..sc.reqs.len()).collect();
                    for i in (1..order.len()).rev() { let j = rng.below(i + 1); order.swap(i, j); }
                    for j in order {
                        let g = shared.read();
                        let v = ver.load(SeqCst);
                        let e = g.ew.enf.as_ref().unwrap();
                        let pick = rng.below(4);
                        let through_ctx2 = sc.ctx2.is_some() && pick == 3;
                        let through_ctx = (sc.ctx.is_some() && (pick == 1 || pick == 2)) || through_ctx2;
                        let (d, want) = if through_ctx2 { (enforce_ctx2_ref(e, sc.ctx2.as_ref().unwrap(), &sc.reqs[j]), sc.ctx2_rows[v].as_bytes()[j] as char) }
                                        else if through_ctx { (enforce_ctx_ref(e, sc.ctx.as_ref().unwrap(), &sc.reqs[j]), sc.ctx_rows[v].as_bytes()[j] as char) }
                                        else { (enforce_ref(e, &sc.reqs[j]), sc.rows[v].as_bytes()[j] as char) };
                        if d != want { mm.lock().push(format!("thread {}: {}({}) = {} in the state after {} writes, serial decision there = {}", ti, if through_ctx { "enforce_with_context" } else { "enforce" }, sc.reqs[j], d, v, want)); }
                        if v < last_v { mm.lock().push(format!("thread {}: state went back from {} to {}", ti, last_v, v)); }
                        last_v = v;
                        if sc.helpers && !sc.perms.is_empty() && rng.below(6) == 0 {
                            let k = rng.below(sc.perms.len());
                            let got = iusers_ref(&rt, e, &sc.perms[k]);
                            if got != sc.irows[v][k] { mm.lock().push(format!("thread {}: implicit users({}) = {} after {} writes, serial = {}", ti, sc.perms[k], got, v, sc.irows[v][k])); }
                        }
                        if sc.helpers && !sc.rrows.is_empty() && !sc.users.is_empty() && rng.below(2) == 1 {
                            let k = rng.below(sc.users.len());
                            let got = enc_list(&sorted(match e { E::Plain(x) => x.get_roles_for_user(&sc.users[k], None), E::Cached(x) => x.get_roles_for_user(&sc.users[k], None) }));
                            if got != sc.rrows[v][k] { mm.lock().push(format!("thread {}: get_roles_for_user({}) = {} after {} writes, serial = {}", ti, sc.users[k], got, v, sc.rrows[v][k])); }
                            let has = match e { E::Plain(x) => x.has_role_for_user(&sc.users[k], "admin", None), E::Cached(x) => x.has_role_for_user(&sc.users[k], "admin", None) };
                            let want_has = dec_list(&sc.rrows[v][k]).iter().any(|r| r == "admin");
                            if has != want_has { mm.lock().push(format!("thread {}: has_role_for_user({}, admin) = {} after {} writes, serial = {}", ti, sc.users[k], has, v, want_has)); }
                        }
                        drop(g);
                    }
                }
            }));
        }
        if sc.writer {
            let (shared, ver, sc2) = (shared.clone(), ver.clone(), sc.clone());
            joins.push(std::thread::spawn(move || {
                let mut rng = Rng::new(sc2.seed ^ 0x5555);
                for (i, op) in sc2.history.iter().enumerate() {
                    std::thread::sleep(Duration::from_micros(50 + rng.below(400) as u64));
                    let mut g = shared.write();
                    g.exec(op);
                    ver.store(i + 1, SeqCst);
                    drop(g);
                }
            }));
        }
        let hj = if sc.handle != "none" {
            let (h, done, mode) = (handle.clone(), done.clone(), sc.handle.clone());
            Some(std::thread::spawn(move || {
                let mut n = 0u64;
                let mut last_long = std::time::Instant::now();
                while !done.load(SeqCst) {
                    if mode == "write" {
                        // now and then the caller sits on the write guard for a while (a slow bulk edit: 15 ms): calls into the
                        // enforcer wait for it, and must still answer from a state of the write history
                        if n == 0 || last_long.elapsed() > Duration::from_millis(60) {
                            let mut g = h.write();
                            g.add_link("scratch_slow", "scratch_r", None);
                            std::thread::sleep(Duration::from_millis(15));
                            let _ = g.delete_link("scratch_slow", "scratch_r", None);
                            drop(g);
                            last_long = std::time::Instant::now();
                        }
                        h.write().add_link("scratch_u", "scratch_r", None);
                        let _ = h.read().has_link("scratch_u", "scratch_r", None);
                        let _ = h.write().delete_link("scratch_u", "scratch_r", None);
                        // every so often a longer critical section: a batch of scratch links under one write guard
                        if n % 8 == 0 {
                            let mut g = h.write();
                            for i in 0..24 { g.add_link(&format!("scratch_u{}", i), "scratch_r", None); }
                            for i in 0..24 { let _ = g.delete_link(&format!("scratch_u{}", i), "scratch_r", None); }
                        }
                    } else {
                        let _ = h.read().has_link("scratch_u", "scratch_r", None);
                        let _ = h.read().get_roles("scratch_u", None);
                    }
                    n += 1;
                    if n % 64 == 0 { std::thread::yield_now(); }
                }
                n
            }))
        } else { None };
        for j in joins { j.join().ok(); }
        done.store(true, SeqCst);
        if let Some(h) = hj { let n = h.join().unwrap_or(0); say(&format!("handle-ops {}", n)); }
        say(&format!("final-version {}", ver.load(SeqCst)));
    }
    let mm = mismatches.lock();
    if mm.is_empty() { say("ok"); } else { say(&format!("mismatch {}", mm[0])); }
    0
}

/// detector self-test: a re-entrant read with a writer queued in between must hang (parking_lot is fair)
fn selftest() -> i32 {
    let lock = Arc::new(RwLock::new(0u32));
    let about = Arc::new(AtomicBool::new(false));
    let g1 = lock.read();
    let (l2, a2) = (lock.clone(), about.clone());
    std::thread::spawn(move || { a2.store(true, SeqCst); let mut w = l2.write(); *w += 1; });
    while !about.load(SeqCst) { std::thread::sleep(Duration::from_millis(1)); }
    std::thread::sleep(Duration::from_millis(60));
    say("start second-read");
    let g2 = lock.read();
    say(&format!("done {}", *g1 + *g2));
    say("ok");
    0
}

// ---------- parent side ----------

static CTR: AtomicUsize = AtomicUsize::new(0);

/// run one scenario in a child process under the watchdog: "ok" | "mismatch ..." | "timeout:<last progress>" | "crash:<code>"
pub fn conc_run(sc_json: &str) -> String {
    let sc: Scenario = match serde_json::from_str(sc_json) { Ok(s) => s, Err(e) => return format!("bad-scenario:{}", e) };
    let dir = "/verif/target/tmp";
    std::fs::create_dir_all(dir).ok();
    let path = format!("{}/c20-{}-{}.json", dir, std::process::id(), CTR.fetch_add(1, SeqCst));
    std::fs::write(&path, sc_json).unwrap();
    let exe = std::env::current_exe().unwrap();
    let mut ch = match std::process::Command::new(exe).args(["c20child", &path]).stdout(std::process::Stdio::piped()).stderr(std::process::Stdio::null()).spawn() {
        Ok(c) => c, Err(e) => return format!("crash:spawn:{}", e) };
    let out = ch.stdout.take().unwrap();
    let lines = Arc::new(parking_lot::Mutex::new(Vec::<String>::new()));
    let l2 = lines.clone();
    let reader = std::thread::spawn(move || { for l in std::io::BufReader::new(out).lines().flatten() { l2.lock().push(l); } });
    let t0 = Instant::now();
    let mut status = None;
    while t0.elapsed() < Duration::from_millis(sc.watchdog_ms) {
        match ch.try_wait() { Ok(Some(s)) => { status = Some(s); break; } _ => std::thread::sleep(Duration::from_millis(5)) }
    }
    let timed_out = status.is_none();
    if timed_out { ch.kill().ok(); ch.wait().ok(); }
    reader.join().ok();
    std::fs::remove_file(&path).ok();
    let ls = lines.lock();
    if timed_out {
        let last = ls.iter().rev().find(|l| l.starts_with("start")).cloned().unwrap_or_else(|| "threads running".into());
        return format!("timeout:{}", last.replace('\t', " "));
    }
    if !status.map(|s| s.success()).unwrap_or(false) { return format!("crash:{:?}", status.and_then(|s| s.code())); }
    let verdict = ls.iter().find(|l| l.starts_with("mismatch")).or_else(|| ls.iter().find(|l| *l == "ok")).cloned().unwrap_or_else(|| "crash:no-verdict".into());
    let extra: String = ls.iter().filter(|l| l.starts_with("rendezvous-fired") || l.starts_with("final-version")).map(|l| format!(" [{}]", l)).collect();
    format!("{}{}", verdict, extra)
}

// ---------- generator ----------

fn static_part(rec: &mut Recorder, w: &mut World) {
    rec.begin();
    let scan = lockscan::scan_dir("/repo/src");
    let locking = scan.locking();
    rec.notes.insert("scan_files".into(), scan.files.into());
    for p in &scan.problems { rec.fail("obligation:lock-scan-incomplete", format!("the syntactic lock pass could not cover the source: {}", p)); }
    let mut sites = 0usize;
    let mut seen = std::collections::BTreeSet::new();
    let mut site_lines = vec![];
    let mut entry: std::collections::BTreeMap<String, String> = Default::default();
    for (name, infos) in &scan.fns {
        for f in infos {
            for s in &f.sites {
                sites += 1;
                site_lines.push(format!("{}:{} {} {} [{}]", s.file, s.line, name, if s.mode == 'R' { "read" } else { "write" }, s.scope));
                let nested: Vec<String> = s.calls.iter().filter(|c| !lockscan::COMMON.contains(&c.0.as_str()) && locking.contains_key(&c.0)).map(|c| c.0.clone()).collect();
                if !nested.is_empty() || !s.inner_acqs.is_empty() {
                    rec.fail("obligation:lock-discipline", format!("{}:{} in fn {}: the {} guard on the role-manager lock (extent: {}) is alive across {} which lock again — the hypothesis of C20.no_deadlock (Conc.disc) no longer holds for this function",
                        s.file, s.line, name, if s.mode == 'R' { "read" } else { "write" }, s.scope,
                        if nested.is_empty() { format!("{} further acquisition(s)", s.inner_acqs.len()) } else { format!("call(s) to {:?}", nested) }));
                }
            }
            let mut prog = vec![];
            scan.prog(f, &locking, 6, &mut prog);
            if prog.is_empty() { continue; }
            if prog.len() > 60 { prog.truncate(60); // whole guards only: cut at the last release
                while let Some(l) = prog.last() { if l.starts_with('r') { break; } prog.pop(); } }
            let wrapped = match f.receiver { Some(m) => { let mut v = vec![format!("a{}0", m)]; v.extend(prog.clone()); v.push(format!("r{}0", m)); v } None => prog.clone() };
            let text = wrapped.join(",");
            entry.entry(name.clone()).or_insert(text.clone());
            if !seen.insert(text.clone()) { rec.count("static:program-duplicate"); continue; }
            // implementation side of this line: the discipline re-evaluated in Rust, independently of `Conc.disc`
            let out = rec.exec(w, &format!("conc.disc\t2\t{}", text));
            if out != "disciplined" && f.sites.is_empty() { rec.count("static:undisciplined-by-inlining"); }
            rec.count(&format!("static:{}", out));
            rec.nontrivial_case(&text);
        }
    }
    rec.notes.insert("lock_sites".into(), sites.into());
    rec.notes.insert("lock_site_list".into(), site_lines.into());
    // a composition of the main entry points with a handle writer, explored exhaustively by the model
    let pick = |n: &str| entry.get(n).cloned().unwrap_or_default();
    let mut comp = vec![pick("enforce"), pick("get_implicit_users_for_permission"), "t,aW1,t,rW1".to_string()];
    let mut wr: Vec<String> = pick("add_policy").split(',').map(|s| s.to_string()).collect();
    if wr.len() > 8 { let tail = wr[wr.len() - 1].clone(); wr.truncate(7); wr.push(tail); }
    comp.push(wr.join(","));
    comp.retain(|c| !c.is_empty());
    let all_ok = comp.iter().all(|c| balanced_increasing(&c.split(',').map(|s| s.to_string()).collect::<Vec<_>>()));
    for pol in ["fair", "eager"] {
        let out = rec.exec(w, &format!("conc.explore\t{}\t{}", pol, comp.join(";")));
        if out != "no-deadlock" && all_ok { rec.fail("obligation:explore", format!("exploration of the composed entry points under the {} policy: {}", pol, out)); }
        rec.count(&format!("static:explore-{}:{}", pol, out));
    }
}

/// the discipline, evaluated independently of the Lean definition: strictly increasing acquisition, matched releases
pub fn balanced_increasing(p: &[String]) -> bool {
    let mut held: Vec<(usize, char)> = vec![];
    for a in p {
        if a == "t" { continue; }
        let b = a.as_bytes();
        let (k, m, l) = (b[0] as char, b[1] as char, a[2..].parse::<usize>().unwrap_or(99));
        if k == 'a' { if l >= 2 || held.iter().any(|h| h.0 >= l) { return false; } held.push((l, m)); }
        else { match held.iter().position(|h| *h == (l, m)) { Some(i) => { held.remove(i); } None => return false } }
    }
    held.is_empty()
}

pub fn run(rec: &mut Recorder, w: &mut World, tier: &str, seed: u64) {
    let mut rng = Rng::new(seed);
    static_part(rec, w);

    // detector self-test (not a property check): the watchdog must see a re-entrant read hang
    let st = Scenario { what: "selftest".into(), watchdog_ms: 1500, ..Default::default() };
    let out = conc_run(&serde_json::to_string(&st).unwrap());
    rec.notes.insert("selftest_reentrant_read_with_queued_writer".into(), out.clone().into());
    rec.count(&format!("selftest:{}", if out.starts_with("timeout") { "hang-detected" } else { "no-hang" }));

    let ks = kinds();
    let thorough = tier == "thorough";
    let n_scen = (if thorough { 12 } else { 3 }) * rec.budget as usize;
    let thread_counts: Vec<usize> = if thorough { vec![2, 4, 8, 16] } else { vec![2, 8] };
    for name in ["rbac", "domains", "keymatch2", "abac"] {
        let k0 = match ks.iter().find(|k| k.name == name) { Some(k) => k.clone(), None => continue };
        for si in 0..n_scen {
            // every other role-based scenario uses short names whose concatenations coincide ("a"+"bc" = "ab"+"c") and the
            // empty string as a name: distinct (user, role) pairs that a careless key would conflate
            let short = si % 2 == 1 && (name == "rbac" || name == "domains");
            let ren: Vec<(String, String)> = [("alice", "a"), ("bob", "ab"), ("admin", "bc"), ("staff", if si % 4 == 1 { "c" } else { "" })].iter().map(|(a, c)| (a.to_string(), c.to_string())).collect();
            let k = if short { rec.count("names:colliding-concatenations"); rename_kind(&k0, &ren, false) } else { k0.clone() };
            let users: Vec<String> = if short { sv(&["a", "ab", "bc"]) } else { sv(&["alice", "bob", "admin"]) };
            for cached in [false, true] {
                // ---- serial oracle (recorded: the Lean model answers the same lines) ----
                let m = model_of(&k, E_ALLOW, false, "", false);
                rec.begin();
                rec.exec(w, &format!("e.cached\t{}", cached));
                let rules: Vec<Vec<String>> = (0..3 + rng.below(4)).map(|_| gen_rule(&mut rng, &k, false)).collect();
                let links = gen_links(&mut rng, &k);
                let lines = lines_of("p", &rules, &k.g, &links);
                if new_enforcer(rec, w, &m, "memory", &lines, "", false) != "ok" { rec.fail("new-failed", format!("cannot build enforcer for {}", name)); continue; }
                let setup: Vec<String> = rec.current.clone();
                let reqs = requests(&k);
                let req_strs: Vec<String> = reqs.iter().map(|r| if r.is_empty() { "|".to_string() } else { r.join(",") }).collect();
                let perms: Vec<String> = if name == "rbac" { vec![enc_list(&sv(&["data1", "read"])), enc_list(&sv(&["data2", "write"]))] } else { vec![] };
                let with_roles = name == "rbac";
                let snapshot = |rec: &mut Recorder, w: &mut World| -> (String, Vec<String>, Vec<String>) {
                    let row = rec.exec(w, &format!("e.enfs\t{}", enc_reqs(&reqs)));
                    let ir = perms.iter().map(|p| rec.exec(w, &format!("e.iusers\t{}", p))).collect();
                    let rr = if with_roles { users.iter().map(|u| rec.exec(w, &format!("e.roles\t{}\t-", esc(u)))).collect() } else { vec![] };
                    (row, ir, rr)
                };
                let mut rows = vec![]; let mut irows = vec![]; let mut rrows: Vec<Vec<String>> = vec![];
                let (r0, i0, q0) = snapshot(rec, w); rows.push(r0); irows.push(i0); if with_roles { rrows.push(q0); }
                let hist_len = 4 + rng.below(if thorough { 12 } else { 6 });
                let mut history = vec![];
                let mut cur_rules = rules.clone();
                for _ in 0..hist_len {
                    let op = match rng.below(6) {
                        0 | 1 => { let r = gen_rule(&mut rng, &k, false); cur_rules.push(r.clone()); MOp::Add("p".into(), "p".into(), r) }
                        2 => { if cur_rules.is_empty() { MOp::Add("p".into(), "p".into(), gen_rule(&mut rng, &k, false)) } else { let i = rng.below(cur_rules.len()); MOp::Rm("p".into(), "p".into(), cur_rules.remove(i)) } }
                        3 | 4 if !k.links.is_empty() => MOp::Add("g".into(), "g".into(), rng.pick(&k.links[0]).clone()),
                        _ if !k.links.is_empty() => MOp::Rm("g".into(), "g".into(), rng.pick(&k.links[0]).clone()),
                        _ => MOp::Add("p".into(), "p".into(), gen_rule(&mut rng, &k, false)),
                    };
                    rec.exec(w, &op.line());
                    history.push(op.line());
                    let (r, i, q) = snapshot(rec, w); rows.push(r); irows.push(i); if with_roles { rrows.push(q); }
                }
                let distinct_rows = rows.iter().collect::<std::collections::BTreeSet<_>>().len();
                rec.count_n("serial:distinct-decision-rows", distinct_rows as u64);
                // ---- concurrent runs (implementation only) ----
                let base = Scenario { what: format!("{}{}", name, if cached { "+cached" } else { "" }), setup, history, reqs: req_strs, rows, perms, irows,
                    threads: 2, rounds: if thorough { 30 } else { 10 }, seed: rng.next(), writer: false, handle: "none".into(), helpers: false, rendezvous: false,
                    users: users.clone(), watchdog_ms: 20000, ctx: None, ctx_rows: vec![], ctx2: None, ctx2_rows: vec![], rrows };
                let mut variants: Vec<Scenario> = vec![];
                let th = thread_counts[si % thread_counts.len()];
                variants.push(Scenario { threads: th, ..base.clone() });                                                       // readers only
                variants.push(Scenario { threads: th, handle: "write".into(), helpers: true, ..base.clone() });               // + handle user
                variants.push(Scenario { threads: th, writer: true, handle: "read".into(), helpers: true, ..base.clone() });  // + writer under the outer lock
                variants.push(Scenario { threads: th.min(8), writer: true, handle: "write".into(), helpers: true, ..base.clone() });
                if !k.g.is_empty() && k.g[0].1 == 2 { variants.push(Scenario { rendezvous: true, ..base.clone() }); }
                for v in variants {
                    if rec.hist.get("spec_failure:deadlock").copied().unwrap_or(0) >= 2 { rec.count("run:skipped-after-deadlocks"); continue; }
                    let label = format!("{} threads={} writer={} handle={} rendezvous={}", v.what, v.threads, v.writer, v.handle, v.rendezvous);
                    let js = serde_json::to_string(&v).unwrap();
                    let out = rec.exec_impl_only(w, &format!("conc.run\t{}", esc(&js)));
                    rec.count(&format!("run:{}:{}", if v.rendezvous { "rendezvous" } else if v.writer { "readers+writer" } else if v.handle != "none" { "readers+handle" } else { "readers" }, out.split(|c| c == ':' || c == ' ').next().unwrap_or("")));
                    if out.starts_with("timeout") { rec.fail("deadlock", format!("[{}] a call never returned (watchdog {} ms): {}", label, v.watchdog_ms, out)); }
                    else if out.starts_with("mismatch") { rec.fail("decision-not-serial", format!("[{}] {}", label, out)); }
                    else if !out.starts_with("ok") { rec.fail("concurrent-run-crashed", format!("[{}] {}", label, out)); }
                    else { rec.nontrivial_case(&label); rec.count_n("decisions-checked", (v.threads * v.rounds * v.reqs.len()) as u64); }
                    if v.rendezvous && out.starts_with("ok") && !out.contains("rendezvous-fired") { rec.fail("rendezvous-did-not-run", format!("[{}] {}", label, out)); }
                    if rec.samples.len() < 6 { rec.sample(format!("{} -> {}", label, out)); }
                }
            }
        }
    }
    // ---- two matcher sections used side by side: enforce next to enforce_with_context("2") ----
    let rb = ks.iter().find(|k| k.name == "rbac").unwrap().clone();
    let acl = ks.iter().find(|k| k.name == "acl").unwrap().clone();
    for si in 0..n_scen { for cached in [false, true] {
        let mut m = model_of(&rb, E_ALLOW, false, "", false);
        let b2 = model_of(&acl, E_ALLOW, false, "2", false);
        m.r.extend(b2.r); m.p.extend(b2.p); m.e.extend(b2.e); m.m.extend(b2.m);
        // a third matcher, reachable only through a hand-built context that differs from EnforceContext::new("2") in nothing
        // but the matcher: the second section's matcher, or the subject is bob
        { let r = |i| Ex::R(i); let sup = or(acl.m.clone(), eq(r(0), Ex::LitS("bob".into()))); m.m.push(("m3".into(), sup.sexpr(), sup.text("r2", &acl.rt, "p2", &acl.pt))); }
        rec.begin();
        rec.exec(w, &format!("e.cached\t{}", cached));
        let rules: Vec<Vec<String>> = (0..3 + rng.below(3)).map(|_| gen_rule(&mut rng, &rb, false)).collect();
        let rules2: Vec<Vec<String>> = (0..2 + rng.below(3)).map(|_| gen_rule(&mut rng, &acl, false)).collect();
        let links = gen_links(&mut rng, &rb);
        let mut lines = lines_of("p", &rules, &rb.g, &links);
        for r in &rules2 { let mut l = sv(&["p", "p2"]); l.extend(r.iter().cloned()); lines.insert(0, l); }
        lines.sort_by_key(|l| (l[0].clone() != "p") as u8);
        lines.dedup();
        if new_enforcer(rec, w, &m, "memory", &lines, "", false) != "ok" { rec.fail("new-failed", "cannot build the two-section enforcer".into()); continue; }
        let setup: Vec<String> = rec.current.clone();
        let reqs = requests(&rb);
        let req_strs: Vec<String> = reqs.iter().map(|r| if r.is_empty() { "|".to_string() } else { r.join(",") }).collect();
        let mut rows = vec![rec.exec(w, &format!("e.enfs\t{}", enc_reqs(&reqs)))];
        let mut ctx_rows = vec![rec.exec(w, &format!("e.enfcs\t2\t{}", enc_reqs(&reqs)))];
        let mut ctx2_rows = vec![rec.exec(w, &format!("e.enfx\tr2\tp2\te2\tm3\t{}", enc_reqs(&reqs)))];
        let mut history = vec![];
        for _ in 0..4 + rng.below(6) {
            let op = match rng.below(5) { 0 | 1 => MOp::Add("p".into(), "p".into(), gen_rule(&mut rng, &rb, false)), 2 | 3 => MOp::Add("p".into(), "p2".into(), gen_rule(&mut rng, &acl, false)),
                _ => MOp::Add("g".into(), "g".into(), rng.pick(&rb.links[0]).clone()) };
            rec.exec(w, &op.line()); history.push(op.line());
            rows.push(rec.exec(w, &format!("e.enfs\t{}", enc_reqs(&reqs))));
            ctx_rows.push(rec.exec(w, &format!("e.enfcs\t2\t{}", enc_reqs(&reqs))));
            ctx2_rows.push(rec.exec(w, &format!("e.enfx\tr2\tp2\te2\tm3\t{}", enc_reqs(&reqs))));
        }
        if rows[0] == ctx_rows[0] { rec.count("sections:identical-rows"); }
        let th = thread_counts[si % thread_counts.len()].max(4);
        let base = Scenario { what: format!("two-sections{}", if cached { "+cached" } else { "" }), setup, history, reqs: req_strs, rows, perms: vec![], irows: vec![],
            threads: th, rounds: if thorough { 60 } else { 25 }, seed: rng.next(), writer: false, handle: "none".into(), helpers: false, rendezvous: false,
            users: vec![], watchdog_ms: 20000, ctx: Some("2".into()), ctx_rows, ctx2: Some(sv(&["r2", "p2", "e2", "m3"])), ctx2_rows, rrows: vec![] };
        for v in [base.clone(), Scenario { writer: true, handle: "read".into(), ..base.clone() }] {
            if rec.hist.get("spec_failure:deadlock").copied().unwrap_or(0) >= 2 { continue; }
            let label = format!("{} threads={} writer={} (enforce mixed with enforce_with_context(2))", v.what, v.threads, v.writer);
            let js = serde_json::to_string(&v).unwrap();
            let out = rec.exec_impl_only(w, &format!("conc.run\t{}", esc(&js)));
            rec.count(&format!("run:two-sections:{}", out.split(|c| c == ':' || c == ' ').next().unwrap_or("")));
            if out.starts_with("timeout") { rec.fail("deadlock", format!("[{}] a call never returned: {}", label, out)); }
            else if out.starts_with("mismatch") { rec.fail("decision-not-serial", format!("[{}] {}", label, out)); }
            else if !out.starts_with("ok") { rec.fail("concurrent-run-crashed", format!("[{}] {}", label, out)); }
            else { rec.nontrivial_case(&label); rec.count_n("decisions-checked", (v.threads * v.rounds * v.reqs.len()) as u64); }
        }
    } }
    // ---- more distinct requests than the decision cache holds (200): entries are evicted while other threads look them up ----
    for si in 0..(if thorough { 4 } else { 1 }) * rec.budget as usize {
        // one rule with a prefix pattern grants every user: evaluation stays cheap, requests stay distinct
        let mut km = acl.clone();
        km.m = crate::ast::and(crate::ast::and(crate::ast::Ex::Call2("keyMatch".into(), Box::new(crate::ast::Ex::R(0)), Box::new(crate::ast::Ex::P(0))), crate::ast::eq(crate::ast::Ex::R(1), crate::ast::Ex::P(1))), crate::ast::eq(crate::ast::Ex::R(2), crate::ast::Ex::P(2)));
        let m = model_of(&km, E_ALLOW, false, "", false);
        rec.begin();
        rec.exec(w, "e.cached\ttrue");
        let n_users = 400;
        let lines: Vec<Vec<String>> = vec![sv(&["p", "p", "u*", "data1", "read"]), sv(&["p", "p", "root", "data2", "read"])];
        if new_enforcer(rec, w, &m, "memory", &lines, "", false) != "ok" { rec.fail("new-failed", "cannot build the many-requests enforcer".into()); continue; }
        let setup: Vec<String> = rec.current.clone();
        let mut reqs: Vec<Vec<String>> = vec![];
        for i in 0..n_users { reqs.push(vec![sval(&format!("u{}", i)), sval("data1"), sval("read")]); if i % 2 == 0 { reqs.push(vec![sval(&format!("u{}", i)), sval("data2"), sval("read")]); } }
        let req_strs: Vec<String> = reqs.iter().map(|r| r.join(",")).collect();
        // serial decisions in chunks (one protocol line each), compared with the model like every other line
        let mut row = String::new();
        for ch in reqs.chunks(100) { row.push_str(&rec.exec(w, &format!("e.enfs\t{}", enc_reqs(ch)))); }
        let sc = Scenario { what: "many-requests+cached".into(), setup, history: vec![], reqs: req_strs, rows: vec![row], perms: vec![], irows: vec![],
            threads: if thorough { 16 } else { 8 }, rounds: if thorough { 200 } else { 50 }, seed: rng.next(), writer: false, handle: "none".into(), helpers: false, rendezvous: false,
            users: vec![], watchdog_ms: 60000, ctx: None, ctx_rows: vec![], ctx2: None, ctx2_rows: vec![], rrows: vec![] };
        let label = format!("{} threads={} distinct requests={} run {}", sc.what, sc.threads, sc.reqs.len(), si);
        let out = rec.exec_impl_only(w, &format!("conc.run\t{}", esc(&serde_json::to_string(&sc).unwrap())));
        rec.count(&format!("run:many-requests:{}", out.split(|c| c == ':' || c == ' ').next().unwrap_or("")));
        if out.starts_with("timeout") { rec.fail("deadlock", format!("[{}] a call never returned: {}", label, out)); }
        else if out.starts_with("mismatch") { rec.fail("decision-not-serial", format!("[{}] {}", label, out)); }
        else if !out.starts_with("ok") { rec.fail("concurrent-run-crashed", format!("[{}] {}", label, out)); }
        else { rec.nontrivial_case(&label); rec.count_n("decisions-checked", (sc.threads * sc.rounds * sc.reqs.len()) as u64); }
        rec.exec(w, "e.cached\tfalse");
    }
    // ---- more distinct (user, role) pairs than the role manager's link cache holds (50): most g() calls of every thread reach
    //      the graph search itself, side by side, with different pairs and different answers (plain enforcer: no decision cache
    //      in front) ----
    for si in 0..(if thorough { 4 } else { 1 }) * rec.budget as usize {
        let rbk = ks.iter().find(|k| k.name == "rbac").unwrap().clone();
        let m = model_of(&rbk, E_ALLOW, false, "", false);
        rec.begin();
        rec.exec(w, "e.cached\tfalse");
        let n_users = 60;
        let roles = ["r0", "r1", "r2", "r3", "r4", "r5"];
        let mut lines: Vec<Vec<String>> = vec![];
        for (i, r) in roles.iter().enumerate() { lines.push(sv(&["p", "p", r, if i % 2 == 0 { "data1" } else { "data2" }, "read"])); }
        for i in 0..n_users { let r = roles[(i * 7 + si) % roles.len()]; lines.push(sv(&["g", "g", &format!("u{}", i), r])); if i % 3 == 0 { lines.push(sv(&["g", "g", &format!("u{}", i), roles[(i + 1) % roles.len()]])); } }
        lines.push(sv(&["g", "g", "r0", "r1"])); lines.push(sv(&["g", "g", "r2", "r3"]));
        if new_enforcer(rec, w, &m, "memory", &lines, "", false) != "ok" { rec.fail("new-failed", "cannot build the many-role-pairs enforcer".into()); continue; }
        let setup: Vec<String> = rec.current.clone();
        let mut reqs: Vec<Vec<String>> = vec![];
        for i in 0..n_users { for o in ["data1", "data2"] { reqs.push(vec![sval(&format!("u{}", i)), sval(o), sval("read")]); } }
        let req_strs: Vec<String> = reqs.iter().map(|r| r.join(",")).collect();
        let mut row = String::new();
        for ch in reqs.chunks(60) { row.push_str(&rec.exec(w, &format!("e.enfs\t{}", enc_reqs(ch)))); }
        let sc = Scenario { what: "many-role-pairs".into(), setup, history: vec![], reqs: req_strs, rows: vec![row], perms: vec![], irows: vec![],
            threads: if thorough { 16 } else { 8 }, rounds: if thorough { 120 } else { 40 }, seed: rng.next(), writer: false, handle: "none".into(), helpers: false, rendezvous: false,
            users: vec![], watchdog_ms: 60000, ctx: None, ctx_rows: vec![], ctx2: None, ctx2_rows: vec![], rrows: vec![] };
        let label = format!("{} threads={} distinct requests={} run {}", sc.what, sc.threads, sc.reqs.len(), si);
        let out = rec.exec_impl_only(w, &format!("conc.run\t{}", esc(&serde_json::to_string(&sc).unwrap())));
        rec.count(&format!("run:many-role-pairs:{}", out.split(|c| c == ':' || c == ' ').next().unwrap_or("")));
        if out.starts_with("timeout") { rec.fail("deadlock", format!("[{}] a call never returned: {}", label, out)); }
        else if out.starts_with("mismatch") { rec.fail("decision-not-serial", format!("[{}] {}", label, out)); }
        else if !out.starts_with("ok") { rec.fail("concurrent-run-crashed", format!("[{}] {}", label, out)); }
        else { rec.nontrivial_case(&label); rec.count_n("decisions-checked", (sc.threads * sc.rounds * sc.reqs.len()) as u64); }
    }
    // ---- a domain-matching function: one request domain matches several stored domains, so has_link walks several
    //      graphs per call; its result cache (feature `cached`) is shared by all threads (implementation only: pattern
    //      domains are outside the Lean role-graph model; the serial rows come from the crate itself, single-threaded) ----
    let dk = ks.iter().find(|k| k.name == "domains").unwrap().clone();
    for si in 0..(if thorough { 4 } else { 1 }) * rec.budget as usize {
        let m = model_of(&dk, E_ALLOW, false, "", false);
        rec.begin();
        m.emit(rec, w);
        let n_users = 300;
        let mut lines: Vec<Vec<String>> = vec![sv(&["p", "p", "admin", "d1", "data1", "read"])];
        // every user is a node of TWO matched domains, but reaches `admin` in only one of them
        let dn = ["*", "d1", "d*"];
        for i in 0..n_users {
            lines.push(sv(&["g", "g", &format!("u{}", i), "admin", dn[i % 3]]));
            lines.push(sv(&["g", "g", &format!("u{}", i), "guest", dn[(i + 1 + i / 3 % 2) % 3]]));
        }
        let new_line = format!("e.new\tmemory\t{}\t\t-", enc_lists(&lines));
        if rec.exec_impl_only(w, &new_line) != "ok" { rec.fail("new-failed", "cannot build the domain-matching enforcer".into()); continue; }
        rec.exec_impl_only(w, "e.rolematch\t-\tkeyMatch");
        rec.exec_impl_only(w, "e.build");
        let mut setup: Vec<String> = rec.current.iter().map(|l| l.trim_start_matches('!').to_string()).collect();
        setup.retain(|l| !l.starts_with("e.enfs"));
        let mut reqs: Vec<Vec<String>> = vec![];
        for i in 0..n_users { reqs.push(vec![sval(&format!("u{}", i)), sval("d1"), sval("data1"), sval("read")]); if i % 4 == 0 { reqs.push(vec![sval(&format!("u{}", i)), sval("d1"), sval("data2"), sval("read")]); } }
        let req_strs: Vec<String> = reqs.iter().map(|r| r.join(",")).collect();
        let mut row = String::new();
        for ch in reqs.chunks(100) { row.push_str(&rec.exec_impl_only(w, &format!("e.enfs\t{}", enc_reqs(ch)))); }
        rec.count_n("domain-matching:serial-grants", row.bytes().filter(|&c| c == b't').count() as u64);
        let sc = Scenario { what: "domain-matching-function".into(), setup, history: vec![], reqs: req_strs, rows: vec![row], perms: vec![], irows: vec![],
            threads: if thorough { 16 } else { 8 }, rounds: if thorough { 120 } else { 40 }, seed: rng.next(), writer: false, handle: "none".into(), helpers: false, rendezvous: false,
            users: vec![], watchdog_ms: 60000, ctx: None, ctx_rows: vec![], ctx2: None, ctx2_rows: vec![], rrows: vec![] };
        let label = format!("{} threads={} distinct requests={} run {}", sc.what, sc.threads, sc.reqs.len(), si);
        let out = rec.exec_impl_only(w, &format!("conc.run\t{}", esc(&serde_json::to_string(&sc).unwrap())));
        rec.count(&format!("run:domain-matching:{}", out.split(|c| c == ':' || c == ' ').next().unwrap_or("")));
        if out.starts_with("timeout") { rec.fail("deadlock", format!("[{}] a call never returned: {}", label, out)); }
        else if out.starts_with("mismatch") { rec.fail("decision-not-serial", format!("[{}] {}", label, out)); }
        else if !out.starts_with("ok") { rec.fail("concurrent-run-crashed", format!("[{}] {}", label, out)); }
        else { rec.nontrivial_case(&label); rec.count_n("decisions-checked", (sc.threads * sc.rounds * sc.reqs.len()) as u64); }
    }
}
