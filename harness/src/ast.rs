//! Matcher ASTs: generated here, rendered to rhai text for the crate and to an
//! s-expression for the Lean model.
use crate::mgmt::esc2;
use crate::proto::Rng;

#[derive(Clone, Debug)]
pub enum Ex {
    LitS(String),
    LitI(i32),
    LitB(bool),
    R(usize),
    P(usize),
    Attr(Box<Ex>, String),
    Cmp(&'static str, Box<Ex>, Box<Ex>), // eq ne lt le gt ge
    And(Box<Ex>, Box<Ex>),
    Or(Box<Ex>, Box<Ex>),
    Not(Box<Ex>),
    G2(String, Box<Ex>, Box<Ex>),
    G3(String, Box<Ex>, Box<Ex>, Box<Ex>),
    Call2(String, Box<Ex>, Box<Ex>),
    Call3(String, Box<Ex>, Box<Ex>, Box<Ex>),
    EvalP(usize),
    Unknown, // r.zzz
}

pub fn b(e: Ex) -> Box<Ex> { Box::new(e) }
pub fn eq(a: Ex, c: Ex) -> Ex { Ex::Cmp("eq", b(a), b(c)) }
pub fn and(a: Ex, c: Ex) -> Ex { Ex::And(b(a), b(c)) }
pub fn or(a: Ex, c: Ex) -> Ex { Ex::Or(b(a), b(c)) }

fn op_text(op: &str) -> &'static str {
    match op { "eq" => "==", "ne" => "!=", "lt" => "<", "le" => "<=", "gt" => ">", _ => ">=" }
}

impl Ex {
    /// rhai text; `rk`/`pk` = section keys ("r"/"p" or "r2"/"p2"), token names per index
    pub fn text(&self, rk: &str, rt: &[String], pk: &str, pt: &[String]) -> String {
        let t = |e: &Ex| e.text(rk, rt, pk, pt);
        match self {
            Ex::LitS(s) => format!("\"{}\"", s),
            Ex::LitI(i) => format!("{}", i),
            Ex::LitB(v) => format!("{}", v),
            Ex::R(i) => format!("{}.{}", rk, rt[*i]),
            Ex::P(i) => format!("{}.{}", pk, pt[*i]),
            Ex::Attr(e, f) => format!("{}.{}", t(e), f),
            Ex::Cmp(op, a, c) => format!("({} {} {})", t(a), op_text(op), t(c)),
            Ex::And(a, c) => format!("({} && {})", t(a), t(c)),
            Ex::Or(a, c) => format!("({} || {})", t(a), t(c)),
            Ex::Not(a) => format!("!({})", t(a)),
            Ex::G2(n, a, c) => format!("{}({}, {})", n, t(a), t(c)),
            Ex::G3(n, a, c, d) => format!("{}({}, {}, {})", n, t(a), t(c), t(d)),
            Ex::Call2(n, a, c) => format!("{}({}, {})", n, t(a), t(c)),
            Ex::Call3(n, a, c, d) => format!("{}({}, {}, {})", n, t(a), t(c), t(d)),
            Ex::EvalP(i) => format!("eval({}.{})", pk, pt[*i]),
            Ex::Unknown => format!("{}.zzz", rk),
        }
    }
    pub fn sexpr(&self) -> String {
        match self {
            Ex::LitS(s) => format!("(lit s:{})", esc2(s)),
            Ex::LitI(i) => format!("(lit i:{})", i),
            Ex::LitB(v) => format!("(lit b:{})", v),
            Ex::R(i) => format!("(r {})", i),
            Ex::P(i) => format!("(p {})", i),
            Ex::Attr(e, f) => format!("(attr {} {})", esc2(f), e.sexpr()),
            Ex::Cmp(op, a, c) => format!("(cmp {} {} {})", op, a.sexpr(), c.sexpr()),
            Ex::And(a, c) => format!("(and {} {})", a.sexpr(), c.sexpr()),
            Ex::Or(a, c) => format!("(or {} {})", a.sexpr(), c.sexpr()),
            Ex::Not(a) => format!("(not {})", a.sexpr()),
            Ex::G2(n, a, c) => format!("(g2 {} {} {})", esc2(n), a.sexpr(), c.sexpr()),
            Ex::G3(n, a, c, d) => format!("(g3 {} {} {} {})", esc2(n), a.sexpr(), c.sexpr(), d.sexpr()),
            Ex::Call2(n, a, c) => format!("(call2 {} {} {})", esc2(n), a.sexpr(), c.sexpr()),
            Ex::Call3(n, a, c, d) => format!("(call3 {} {} {} {})", esc2(n), a.sexpr(), c.sexpr(), d.sexpr()),
            Ex::EvalP(i) => format!("(evalp {})", i),
            Ex::Unknown => "(unk)".to_string(),
        }
    }
    pub fn has_negation(&self) -> bool {
        match self {
            Ex::Not(_) => true,
            Ex::Cmp(op, a, c) => *op != "eq" || a.has_negation() || c.has_negation(),
            Ex::And(a, c) | Ex::Or(a, c) => a.has_negation() || c.has_negation(),
            Ex::Attr(e, _) => e.has_negation(),
            Ex::G2(_, a, c) | Ex::Call2(_, a, c) => a.has_negation() || c.has_negation(),
            Ex::G3(_, a, c, d) | Ex::Call3(_, a, c, d) => a.has_negation() || c.has_negation() || d.has_negation(),
            _ => false,
        }
    }
    pub fn ops(&self, out: &mut Vec<&'static str>) {
        match self {
            Ex::LitS(_) | Ex::LitI(_) | Ex::LitB(_) => out.push("lit"),
            Ex::R(_) => out.push("r"), Ex::P(_) => out.push("p"),
            Ex::Attr(e, _) => { out.push("attr"); e.ops(out) }
            Ex::Cmp(op, a, c) => { out.push(match *op { "eq" => "==", "ne" => "!=", _ => "order" }); a.ops(out); c.ops(out) }
            Ex::And(a, c) => { out.push("&&"); a.ops(out); c.ops(out) }
            Ex::Or(a, c) => { out.push("||"); a.ops(out); c.ops(out) }
            Ex::Not(a) => { out.push("!"); a.ops(out) }
            Ex::G2(_, a, c) => { out.push("g2"); a.ops(out); c.ops(out) }
            Ex::G3(_, a, c, d) => { out.push("g3"); a.ops(out); c.ops(out); d.ops(out) }
            Ex::Call2(_, a, c) => { out.push("builtin"); a.ops(out); c.ops(out) }
            Ex::Call3(_, a, c, d) => { out.push("builtin3"); a.ops(out); c.ops(out); d.ops(out) }
            Ex::EvalP(_) => out.push("eval"),
            Ex::Unknown => out.push("unknown-var"),
        }
    }
}

pub struct GenCtx<'a> {
    pub nr: usize,
    pub np: usize,
    pub gdefs: &'a [(String, usize)],
    pub lits: &'a [&'a str],
    pub allow_neg: bool,
}

/// a string-typed leaf (mostly well typed)
fn gen_str(rng: &mut Rng, c: &GenCtx) -> Ex {
    match rng.below(10) {
        0..=3 => Ex::R(rng.below(c.nr)),
        4..=7 => Ex::P(rng.below(c.np)),
        8 => Ex::LitS(rng.pick(c.lits).to_string()),
        _ => if rng.chance(1, 4) { Ex::LitI(rng.below(3) as i32) } else { Ex::LitS(rng.pick(c.lits).to_string()) },
    }
}

/// a boolean expression of bounded depth
pub fn gen_bool(rng: &mut Rng, c: &GenCtx, depth: usize) -> Ex {
    let leaf = depth == 0 || rng.chance(1, 3);
    if leaf {
        match rng.below(12) {
            0..=4 => eq(gen_str(rng, c), gen_str(rng, c)),
            5 => if c.allow_neg { Ex::Cmp("ne", b(gen_str(rng, c)), b(gen_str(rng, c))) } else { eq(gen_str(rng, c), gen_str(rng, c)) },
            6 | 7 => {
                if c.gdefs.is_empty() { eq(gen_str(rng, c), gen_str(rng, c)) } else {
                    let (n, ar) = rng.pick(c.gdefs).clone();
                    if ar == 2 { Ex::G2(n, b(gen_str(rng, c)), b(gen_str(rng, c))) }
                    else { Ex::G3(n, b(gen_str(rng, c)), b(gen_str(rng, c)), b(gen_str(rng, c))) }
                }
            }
            8 | 9 => {
                let f = *rng.pick(&["keyMatch", "keyMatch2", "keyMatch3", "keyMatch4", "keyMatch5"]);
                Ex::Call2(f.to_string(), b(Ex::R(rng.below(c.nr))), b(Ex::P(rng.below(c.np))))
            }
            10 => if c.allow_neg { Ex::Cmp(*rng.pick(&["lt", "le", "gt", "ge"]), b(gen_str(rng, c)), b(gen_str(rng, c))) } else { Ex::LitB(true) },
            _ => match rng.below(6) { 0 => Ex::LitB(rng.chance(1, 2)), 1 => Ex::R(rng.below(c.nr)), 2 => Ex::Unknown, _ => eq(gen_str(rng, c), gen_str(rng, c)) },
        }
    } else {
        match rng.below(if c.allow_neg { 7 } else { 6 }) {
            0..=2 => and(gen_bool(rng, c, depth - 1), gen_bool(rng, c, depth - 1)),
            3..=5 => or(gen_bool(rng, c, depth - 1), gen_bool(rng, c, depth - 1)),
            _ => Ex::Not(b(gen_bool(rng, c, depth - 1))),
        }
    }
}
