//! C15 — built-in path matchers implement their documented patterns.
use crate::interp::World;
use crate::mgmt::*;
use crate::proto::*;

#[derive(Clone, Debug, PartialEq)]
pub enum Seg { Lit(String), Named(String), Rest }

pub fn render(pat: &[Seg], braces: bool) -> String {
    let mut s = String::new();
    for seg in pat {
        s.push('/');
        match seg { Seg::Lit(x) => s.push_str(x), Seg::Named(n) => { if braces { s.push('{'); s.push_str(n); s.push('}'); } else { s.push(':'); s.push_str(n); } } Seg::Rest => s.push('*') }
    }
    s
}

/// the independent segment-wise matcher (no regular expressions): bindings if the key matches.
/// `/*` stands for any remainder (without newline); when more segments follow it, the remainder is
/// the longest one after which the following segments still match (first wildcard first).
pub fn seg_match(pat: &[Seg], key: &str) -> Option<Vec<(String, String)>> {
    if !key.starts_with('/') { return if pat.is_empty() && key.is_empty() { Some(vec![]) } else { None }; }
    if pat.is_empty() { return None; }
    seg_go(pat, &key[1..])
}

/// `rest` is the key text after the slash that opens `pat[0]`
fn seg_go(pat: &[Seg], rest: &str) -> Option<Vec<(String, String)>> {
    let last = pat.len() == 1;
    match &pat[0] {
        Seg::Rest => {
            if last { return if rest.contains('\n') { None } else { Some(vec![]) }; }
            let slashes: Vec<usize> = rest.char_indices().filter(|(_, c)| *c == '/').map(|(i, _)| i).collect();
            for &j in slashes.iter().rev() {
                if rest[..j].contains('\n') { continue; }
                if let Some(b) = seg_go(&pat[1..], &rest[j + 1..]) { return Some(b); }
            }
            None
        }
        seg => {
            let (head, tail, more) = match rest.find('/') { Some(j) => (&rest[..j], &rest[j + 1..], true), None => (rest, "", false) };
            let mut binds = vec![];
            match seg { Seg::Lit(x) => if head != x { return None; }, Seg::Named(n) => { if head.is_empty() { return None; } binds.push((n.clone(), head.to_string())); } _ => {} }
            if last { return if more { None } else { Some(binds) }; }
            if !more { return None; }
            binds.extend(seg_go(&pat[1..], tail)?);
            Some(binds)
        }
    }
}

/// every pattern of the grammar with at most `maxseg` segments; `/*` may stand anywhere
fn all_pats(maxseg: usize, lits: &[&str], names: &[&str]) -> Vec<Vec<Seg>> {
    let mut segs: Vec<Seg> = lits.iter().map(|l| Seg::Lit(l.to_string())).collect();
    segs.extend(names.iter().map(|n| Seg::Named(n.to_string())));
    segs.push(Seg::Rest);
    let mut out: Vec<Vec<Seg>> = vec![];
    let mut cur: Vec<Vec<Seg>> = vec![vec![]];
    for _ in 0..maxseg {
        let mut next = vec![];
        for p in &cur { for s in &segs { let mut q = p.clone(); q.push(s.clone()); next.push(q); } }
        out.extend(next.iter().cloned());
        cur = next;
    }
    out
}

fn all_keys(maxseg: usize, parts: &[&str]) -> Vec<String> {
    let mut out = vec![String::new(), "/".to_string()];
    let mut cur = vec![String::new()];
    for _ in 0..maxseg {
        let mut next = vec![];
        for k in &cur { for p in parts { next.push(format!("{}/{}", k, p)); } }
        out.extend(next.iter().cloned());
        cur = next;
    }
    out
}

pub fn run(rec: &mut Recorder, w: &mut World, tier: &str, seed: u64) {
    let mut rng = Rng::new(seed);
    // ---- (a) the regex fragment itself, against the regex crate ----
    let n_re = (if tier == "thorough" { 40000 } else { 4000 }) * rec.budget as usize;
    rec.begin();
    for i in 0..n_re {
        let n = 1 + rng.below(6);
        let mut body = String::new();
        for _ in 0..n {
            match rng.below(9) {
                0..=3 => body.push(*rng.pick(&['a', 'b', '/', 'é', ':'])),
                4 => body.push_str(".*"),
                5 => body.push_str("[^/]+"),
                6 => body.push_str("([^/]+)"),
                7 => body.push_str("([^/]+?)"),
                _ => body.push('.'),
            }
        }
        let kl = rng.below(7);
        let key: String = (0..kl).map(|_| *rng.pick(&['a', 'b', '/', 'é', ':', '\n'])).collect();
        let out = rec.exec(w, &format!("re\t{}\t{}", esc(&body), esc(&key)));
        rec.count(if out == "none" { "regex:no-match" } else { "regex:match" });
        if out != "none" { rec.nontrivial_case(&format!("re|{}|{}", body, key)); }
        if i < 2 { rec.sample(format!("re ^{}$ on {:?} -> {}", body, key, out)); }
    }
    // ---- (b) all patterns of the grammar x all keys, nine functions, vs the segment-wise matcher ----
    let (pseg, kseg) = if tier == "thorough" { (3, 4) } else { (2, 3) };
    let lits = ["a", "b", "é"]; let names = ["id", "x"];
    let pats = all_pats(pseg, &lits, &names);
    let mut keys = all_keys(kseg, &["a", "b", "é", "ab", ""]);
    keys.push("/a?q=1".into()); keys.push("/a/b?x=/y".into()); keys.push("/é/a?é".into());
    // the query starts at the FIRST question mark
    keys.push("/a/b?x=1?y=2".into()); keys.push("/a?next=/b?z".into()); keys.push("/a/é?p?q".into()); keys.push("/b??".into());
    rec.notes.insert("patterns".into(), pats.len().into());
    rec.notes.insert("keys".into(), keys.len().into());
    rec.begin();
    for pat in &pats {
        let p2 = render(pat, false); let p3 = render(pat, true);
        for key in &keys {
            let want = seg_match(pat, key);
            let nq = key.split('?').next().unwrap().to_string();
            let want5 = seg_match(pat, &nq);
            // the colon syntax means nothing to the brace matchers: there ":name" is literal text
            let pat_lit: Vec<Seg> = pat.iter().map(|s| if let Seg::Named(n) = s { Seg::Lit(format!(":{}", n)) } else { s.clone() }).collect();
            let want_lit = seg_match(&pat_lit, key);
            let checks: Vec<(&str, String, String)> = vec![
                ("keyMatch2", p2.clone(), bool_s(want.is_some()).to_string()),
                ("keyMatch3", p2.clone(), bool_s(want_lit.is_some()).to_string()),
                ("keyMatch3", p3.clone(), bool_s(want.is_some()).to_string()),
                ("keyMatch5", p3.clone(), bool_s(want5.is_some()).to_string()),
                ("keyMatch4", p3.clone(), bool_s(want.as_ref().map(|b| b.iter().all(|(n1, v1)| b.iter().all(|(n2, v2)| n1 != n2 || v1 == v2))).unwrap_or(false)).to_string()),
            ];
            for (f, p, wv) in checks {
                let out = rec.exec(w, &format!("km\t{}\t{}\t{}", f, esc(key), esc(&p)));
                if out != wv { rec.fail("matcher-vs-segments", format!("{}({:?}, {:?}) = {} but segment-wise matching gives {}", f, key, p, out, wv)); }
                if out == "true" { rec.nontrivial_case(&format!("{}|{}|{}", f, key, p)); }
                rec.count(&format!("fn:{}", f));
            }
            // keyGet2 / keyGet3: the text bound by a name (first occurrence), "" otherwise
            for n in ["id", "x", "zz"] {
                let wv = want.as_ref().and_then(|b| b.iter().find(|(k, _)| k == n).map(|(_, v)| v.clone())).unwrap_or_default();
                for (f, p) in [("keyGet2", &p2), ("keyGet3", &p3)] {
                    let out = rec.exec(w, &format!("km\t{}\t{}\t{}\t{}", f, esc(key), esc(p), n));
                    if out != format!("s:{}", esc(&wv)) { rec.fail("getter-vs-segments", format!("{}({:?}, {:?}, {}) = {} but the bound segment is {:?}", f, key, p, n, out, wv)); }
                    rec.count(&format!("fn:{}", f));
                }
            }
        }
    }
    // ---- (b') seeded-random beyond the exhaustive size: 4-segment patterns x keys of up to 5 segments ----
    let n_rand = (if tier == "thorough" { 30000 } else { 3000 }) * rec.budget as usize;
    for _ in 0..n_rand {
        let pat: Vec<Seg> = (0..4).map(|_| match rng.below(7) { 0..=2 => Seg::Lit(rng.pick(&lits).to_string()), 3 | 4 => Seg::Named(rng.pick(&names).to_string()), _ => Seg::Rest }).collect();
        // keys biased towards matching: follow the pattern, sometimes deviate
        let mut key = String::new();
        for seg in &pat {
            let n = match seg { Seg::Rest => rng.below(3), _ => 1 };
            for _ in 0..n { key.push('/'); key.push_str(match seg { Seg::Lit(x) if rng.below(8) != 0 => x.as_str(), _ => *rng.pick(&["a", "b", "é", "ab", ""]) }); }
        }
        if rng.below(6) == 0 { key.push_str("/a"); }
        if rng.below(6) == 0 { key.push_str("?q=/b"); if rng.below(2) == 0 { key.push_str("?r=/a"); } }
        let want = seg_match(&pat, &key);
        let nq = key.split('?').next().unwrap().to_string();
        let want5 = seg_match(&pat, &nq);
        let rests = pat.iter().filter(|s| **s == Seg::Rest).count();
        let p2 = render(&pat, false); let p3 = render(&pat, true);
        let mut checks: Vec<(&str, String, bool)> = vec![("keyMatch2", p2.clone(), want.is_some()), ("keyMatch3", p3.clone(), want.is_some()), ("keyMatch5", p3.clone(), want5.is_some())];
        // with two wildcards and a repeated name the binding that keyMatch4 compares is the regex's first match: only the unambiguous patterns have a segment-wise meaning
        if rests <= 1 { checks.push(("keyMatch4", p3.clone(), want.as_ref().map(|b| b.iter().all(|(n1, v1)| b.iter().all(|(n2, v2)| n1 != n2 || v1 == v2))).unwrap_or(false))); }
        for (f, p, wv) in checks {
            let out = rec.exec(w, &format!("km\t{}\t{}\t{}", f, esc(&key), esc(&p)));
            if out != bool_s(wv) { rec.fail("matcher-vs-segments", format!("{}({:?}, {:?}) = {} but segment-wise matching gives {}", f, key, p, out, wv)); }
            if out == "true" { rec.nontrivial_case(&format!("{}|{}|{}", f, key, p)); rec.count("random4:match"); } else { rec.count("random4:no-match"); }
        }
        let n = *rng.pick(&names);
        let wv = want.as_ref().and_then(|b| b.iter().find(|(k, _)| k == n).map(|(_, v)| v.clone())).unwrap_or_default();
        for (f, p) in [("keyGet2", &p2), ("keyGet3", &p3)] {
            let out = rec.exec(w, &format!("km\t{}\t{}\t{}\t{}", f, esc(&key), esc(p), n));
            if out != format!("s:{}", esc(&wv)) { rec.fail("getter-vs-segments", format!("{}({:?}, {:?}, {}) = {} but the bound segment is {:?}", f, key, p, n, out, wv)); }
        }
    }
    // keyMatch / keyGet: prefix before the first '*'

    let kpats = ["/a/*", "a*", "*", "/é/*", "aé*", "/a/b", "", "/a*/b*", "é"];
    let kkeys: Vec<String> = all_keys(2, &["a", "é", "a*", "ab"]).into_iter().chain(["a".to_string(), "aé".to_string(), "é".to_string(), "aéb".to_string(), "😀".to_string()]).collect();
    for p in kpats { for k in &kkeys {
        let (wm, wg) = match p.find('*') { None => (k == p, String::new()), Some(i) => { let pre = &p[..i]; let m = k.starts_with(pre); (m, if m && k.len() > pre.len() { k[pre.len()..].to_string() } else { String::new() }) } };
        let out = rec.exec(w, &format!("km\tkeyMatch\t{}\t{}", esc(k), esc(p)));
        if out != bool_s(wm) { rec.fail("keymatch-vs-prefix", format!("keyMatch({:?}, {:?}) = {} but prefix test gives {}", k, p, out, wm)); }
        let out = rec.exec(w, &format!("km\tkeyGet\t{}\t{}", esc(k), esc(p)));
        if out != format!("s:{}", esc(&wg)) { rec.fail("keyget-vs-prefix", format!("keyGet({:?}, {:?}) = {} but the text after the prefix is {:?}", k, p, out, wg)); }
        rec.count("fn:keyMatch/keyGet");
    } }
    rec.exhaustive = true;
    // ---- (c) malformed patterns (outside the documented grammar and the modelled regex fragment):
    //      implementation only — never a hang; a panic only where the rewritten pattern is not a valid regex ----
    for p in ["/:/b", "/a/**", "/a*", "/:a:b", "/{a}x{b}", "/{}", "/a/{id", "/(", "/a/:id/*/:x", "//", "/a//b", "/[a]", "/a+", "/{a}}"] {
        for k in keys.iter().step_by(5).take(30) {
            for f in ["keyMatch2", "keyMatch3", "keyMatch4", "keyMatch5"] {
                let out = rec.exec_impl_only(w, &format!("km\t{}\t{}\t{}", f, esc(k), esc(p)));
                if out == "panic" {
                    // legitimate only if the pattern does not compile after the documented rewriting
                    let invalid = ["/(", "/a/{id", "/[a]", "/{}", "/{a}}", "/{a}x{b}"].contains(&p) || (f == "keyMatch2" && p.contains('{'));
                    if !invalid { rec.fail("malformed-pattern-panic", format!("{}({:?}, {:?}) panicked although the rewritten pattern is a valid regex", f, k, p)); }
                    rec.count("malformed:panic-invalid-regex");
                } else { rec.count("malformed:answered"); }
            }
        }
    }
    let _ = sv(&[]);
}
