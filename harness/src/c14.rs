//! C14 — change notifications are a faithful changelog.
use crate::interp::World;
use crate::mgmt::*;
use crate::proto::*;

/// fold one event into the replica
fn apply_event(rep: &mut RefStore, ev: &str, m: &ModelDef) {
    let f: Vec<&str> = ev.split('|').collect();
    match f[0] {
        "add" => { rep.add(f[1], f[2], &dec_list(f[3])); }
        "addm" => { for r in dec_lists(f[3]) { rep.add(f[1], f[2], &r); } }
        "rm" => { rep.rm(f[1], f[2], &dec_list(f[3])); }
        "rmm" | "rmf" => { for r in dec_lists(f[3]) { rep.rm(f[1], f[2], &r); } }
        "clear" => rep.clear(),
        "save" => { *rep = RefStore::of_model(m); for l in dec_lists(f[1]) { if l.len() >= 2 { rep.add(&l[0].clone(), &l[1].clone(), &l[2..]); } } }
        _ => {}
    }
}

pub fn run(rec: &mut Recorder, w: &mut World, tier: &str, seed: u64) {
    let mut rng = Rng::new(seed);
    let m = priority_rbac();
    let u = small_universe();
    let alpha = alphabet(&u);
    let n_hist = (if tier == "thorough" { 2000 } else { 200 }) * rec.budget as usize;
    let maxlen = if tier == "thorough" { 150 } else { 40 };
    // exhaustive: every history of length <= 2 over the C04 alphabet plus the notification ops
    #[derive(Clone)]
    enum St { M(MOp), Notify(bool), Save, Fault(&'static str, MOp), Flag(&'static str, bool) }
    let mut base: Vec<St> = alpha.iter().cloned().map(St::M).collect();
    base.push(St::Notify(true)); base.push(St::Notify(false)); base.push(St::Save);
    // the other enforcer switches must not influence what is notified
    base.push(St::Flag("build", false)); base.push(St::Flag("build", true)); base.push(St::Flag("enforce", false));
    let mut hists: Vec<Vec<St>> = vec![];
    for a in &base { hists.push(vec![a.clone()]); for c in &base { hists.push(vec![a.clone(), c.clone()]); } }
    // directed: a removal whose link update fails after the store has changed (the link was never built, or the
    // stored rule is shorter than the definition) - the change still has to be notified
    for removal in [MOp::RmF("g".into(), "g".into(), 0, sv(&["alice"])), MOp::Rm("g".into(), "g".into(), sv(&["alice", "admin"])),
                    MOp::RmM("g".into(), "g".into(), vec![sv(&["alice", "admin"])]), MOp::DelUser("alice".into()), MOp::DelRole("admin".into())] {
        hists.push(vec![St::Flag("build", false), St::M(MOp::Add("g".into(), "g".into(), sv(&["alice", "admin"]))), St::Flag("build", true), St::M(removal.clone())]);
        hists.push(vec![St::M(MOp::Add("p".into(), "p".into(), sv(&["alice", "d1", "read", "allow"]))), St::Flag("build", false), St::M(MOp::AddM("g".into(), "g".into(), vec![sv(&["alice", "admin"]), sv(&["bob", "admin"])])), St::Flag("build", true), St::M(removal.clone()), St::Save]);
    }
    hists.push(vec![St::M(MOp::Add("g".into(), "g".into(), sv(&["carol"]))), St::M(MOp::RmF("g".into(), "g".into(), 0, sv(&["carol"])))]);
    hists.push(vec![St::M(MOp::AddM("g".into(), "g".into(), vec![sv(&["alice", "admin"]), sv(&["carol"])])), St::M(MOp::RmF("g".into(), "g".into(), 0, sv(&["carol"]))), St::M(MOp::DelUser("alice".into()))]);
    // directed: redundant toggles (on while on, off/on/on) followed by changes
    for toggles in [vec![true], vec![true, true], vec![false, true, true], vec![false, false, true]] {
        let mut h: Vec<St> = toggles.iter().map(|v| St::Notify(*v)).collect();
        h.push(St::M(MOp::Add("p".into(), "p".into(), sv(&["alice", "d1", "read", "allow"]))));
        h.push(St::M(MOp::AddM("p".into(), "p".into(), vec![sv(&["bob", "d1", "read", "allow"]), sv(&["bob", "d2", "read", "deny"])])));
        h.push(St::M(MOp::RmF("p".into(), "p".into(), 0, sv(&["bob"]))));
        h.push(St::M(MOp::Clear)); h.push(St::Save);
        hists.push(h);
    }
    let n_ex = hists.len();
    for _ in 0..n_hist {
        let len = 1 + rng.below(maxlen);
        hists.push((0..len).map(|_| match rng.below(16) {
            0 => St::Notify(rng.chance(2, 3)), 1 => St::Save,
            3 => St::Flag(*rng.pick(&["build", "enforce"]), rng.chance(1, 2)),
            2 => St::Fault(*rng.pick(&["err", "refuse"]), random_op(&mut rng, &u)),
            _ => St::M(random_op(&mut rng, &u)) }).collect());
    }
    for (hi, hist) in hists.iter().enumerate() {
        rec.begin();
        let kind = if hi < n_ex { "memory" } else { *rng.pick(&["memory", "null", "file"]) };
        // every third history runs on a CachedEnforcer (its own handler table forwards the same notifications)
        let cached = hi % 3 == 2;
        rec.exec(w, &format!("e.cached\t{}", cached));
        new_enforcer(rec, w, &m, kind, &[], "", true);
        rec.count(if cached { "enforcer:cached" } else { "enforcer:plain" });
        let mut replica = RefStore::of_model(&m);
        let mut enabled = true;      // notifications on (the constructor enables them)
        let mut in_sync = true;      // the replica saw every change so far
        let mut descr = vec![];
        // "changed" is what the store shows (C04 decides whether it should have changed): a call that fails
        // after changing the store, e.g. a link update on a link that was never built, still has to be notified
        let mut prev_pol = rec.exec(w, "e.pol");
        for st in hist {
            let (line, want_changed, kindname): (String, Option<bool>, &str) = match st {
                St::M(op) => { let out = rec.exec(w, &op.line()); (op.line(), Some(out.starts_with("true")), op.kind()) }
                St::Notify(v) => { rec.exec(w, &format!("e.auto\tnotify\t{}", v)); enabled = *v; (format!("notify {}", v), None, "toggle") }
                St::Save => { rec.exec(w, "e.save"); ("e.save".into(), None, "save") }
                St::Flag(which, v) => { rec.exec(w, &format!("e.auto\t{}\t{}", which, v)); (format!("enable_{} {}", which, v), None, "flag") }
                St::Fault(f, op) => { rec.exec(w, &format!("e.fault\t{}", fault_plan(op, f))); rec.exec(w, &op.line()); rec.exec(w, "e.fault\t-"); (format!("fault {} {}", f, op.line()), Some(false), "rejected") }
            };
            descr.push(line.replace('\t', " "));
            rec.count(&format!("op:{}", kindname));
            let cur = rec.exec(w, "e.pol");
            // one notification iff the call reported a change (an empty batch reports one, vacuously) or the store shows one
            let want_changed = want_changed.map(|reported| reported || cur != prev_pol);
            prev_pol = cur.clone();
            let evs_s = rec.exec(w, "e.events");
            let evs: Vec<&str> = if evs_s == "-" { vec![] } else { evs_s.split(' ').collect() };
            // (1) exactly one notification per change, none otherwise; clear/save exactly one
            let expect = if !enabled { 0 } else { match (st, want_changed) {
                (St::M(MOp::Clear), _) => 1, (St::Save, _) => 1, (St::Notify(_), _) => 0, (St::Flag(..), _) => 0,
                (St::M(MOp::DelUser(_)), _) | (St::M(MOp::DelRole(_)), _) => usize::MAX, // two internal calls: 0..2 events, checked by the replica
                (_, Some(true)) => 1, _ => 0 } };
            if expect != usize::MAX && evs.len() != expect {
                rec.fail("wrong-notification-count", format!("after {}: {} notifications delivered ({}), expected {}", descr.join(" ; "), evs.len(), evs_s, expect));
            }
            rec.count_n("events", evs.len() as u64);
            // (2) fold into the replica
            for ev in &evs {
                if ev.starts_with("save|") || *ev == "clear" { in_sync = true; }
                apply_event(&mut replica, ev, &m);
            }
            if !enabled && (want_changed == Some(true) || matches!(st, St::M(MOp::Clear))) { in_sync = false; }
            if matches!(st, St::M(MOp::DelUser(_)) | St::M(MOp::DelRole(_))) && !enabled { in_sync = false; }
            if in_sync && enabled && replica.render() != cur {
                rec.fail("replica-diverged", format!("after {}: replica {} but primary {} (events {})", descr.join(" ; "), replica.render(), cur, evs_s));
                break;
            }
            if in_sync && enabled { rec.count("replica:compared-equal"); }
            // a snapshot notification must equal the stored policy
            for ev in &evs { if let Some(body) = ev.strip_prefix("save|") {
                let parts: Vec<&str> = cur.split(' ').collect();
                let all = if parts[0] == "-" { parts[1].to_string() } else if parts[1] == "-" { parts[0].to_string() } else { format!("{};{}", parts[0], parts[1]) };
                if body != all { rec.fail("snapshot-differs", format!("after {}: snapshot {} but stored {}", descr.join(" ; "), body, all)); }
            } }
        }
        rec.nontrivial_case(&descr.join("|"));
        if hi == n_ex { rec.sample(descr.iter().take(8).cloned().collect::<Vec<_>>().join(" ; ")); }
    }
    rec.exec(w, "e.cached\tfalse");
    rec.count_n("histories:exhaustive", n_ex as u64);
    rec.count_n("histories:random", n_hist as u64);
}
